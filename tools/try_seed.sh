#!/bin/bash
# usage: tools/try_seed.sh <patch.diff> [PROP ...]
# Applies a seeded fault to /repo, confirms the repository's own suite still passes, runs the given
# (default: all) quick checks, prints which ones report a VIOLATION, and restores /repo.
set -u
patch=$(readlink -f "$1"); shift
props=("$@"); [ ${#props[@]} -eq 0 ] && props=($(seq -f "C%02g" 1 20))
cd /repo
if [ -n "$(git status --porcelain --untracked-files=no)" ]; then echo "/repo not clean"; exit 3; fi
git apply "$patch" || { echo "patch does not apply"; exit 3; }
# evidence files and replays written while /repo is patched are not evidence: keep the ones of the
# unchanged tree aside and put them back afterwards
bak=$(mktemp -d /verif/build/evidence-keep.XXXXXX); cp -a /verif/evidence/. "$bak"/
trap 'git -C /repo checkout -- . ; git -C /repo clean -fdq -e target; rm -rf /verif/evidence; mkdir -p /verif/evidence; cp -a "$bak"/. /verif/evidence/; rm -rf "$bak" /verif/replays' EXIT
suite=$(cargo test --workspace --offline 2>&1 | grep -E "^test result" | tr '\n' ' ')
echo "suite: $suite"
cd /verif
fired=()
for p in "${props[@]}"; do
  out=$(./check $p --tier quick 2>&1); rc=$?
  line=$(echo "$out" | grep -m1 -E "^\s+\[" | cut -c1-260)
  echo "$p rc=$rc $(echo "$out" | grep -c '^VIOLATION') violation lines; $line"
  [ $rc -eq 1 ] && fired+=($p)
  [ $rc -eq 2 ] && echo "$out" | grep -m3 INCONCLUSIVE | cut -c1-300
done
echo "FIRED: ${fired[*]:-none}"
