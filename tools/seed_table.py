#!/usr/bin/env python3
"""Renders the seeded-fault table (from seeded/*/meta.json + first lines of notes.md) into DESIGN.md
between the SEED-TABLE markers."""
import json, os, re
V = os.path.dirname(os.path.dirname(os.path.abspath(__file__)))
rows = []
retired = []
per_round = {}
n = own = anyc = conf = 0
for sid in sorted(os.listdir(os.path.join(V, "seeded"))):
    mp = os.path.join(V, "seeded", sid, "meta.json")
    if not os.path.exists(mp):
        continue
    m = json.load(open(mp))
    if m.get("retired"):
        retired.append("| %s | — | retired: %s | — | — | %s |" % (sid, m["retired"].replace("|", "\\|")[:230], ", ".join(m["fired"]) or "none (as it should be)"))
        continue
    what = m.get("summary", "")
    if not what:
        try:
            txt = open(os.path.join(V, "seeded", sid, "notes.md")).read()
            lines = [l.strip("# ").strip() for l in txt.splitlines() if l.strip()]
            what = lines[0] if lines else ""
        except Exception:
            pass
    what = what.replace("|", "\\|")[:150]
    n += 1
    conf += 1 if m["confirmed"] else 0
    own += 1 if m["detected_by_own_property"] else 0
    anyc += 1 if m["fired"] else 0
    fired = ", ".join(m["fired"]) or "**none**"
    k = int(sid.split("-")[1])
    rnd = m.get("round") or (1 if k <= 2 else (2 if k <= 5 else (3 if k <= 7 else (4 if k <= 9 else 5))))
    per_round.setdefault(rnd, [0, 0, 0])
    per_round[rnd][0] += 1
    per_round[rnd][1] += 1 if m["detected_by_own_property"] else 0
    per_round[rnd][2] += 1 if m["fired"] else 0
    rows.append("| %s | %d | %s | %s | %s | %s |" % (sid, rnd, what, "yes" if m["confirmed"] else "NO", "yes" if m["detected_by_own_property"] else "**no**", fired))
summary = "; ".join("round %d: %d seeds, %d caught by the check of their own property, %d by at least one check" % (r, v[0], v[1], v[2]) for r, v in sorted(per_round.items()))
legend = ("Each row is the verdict of the run recorded in `seeded/<id>/meta.json` (`harness_commit`, `repo_commit`). "
          "Rows without a `harness_commit` were run before that field existed (rounds 1-3, harness commits 30fab45 ... 27a3fc8, "
          "/repo at 5cd99a9); later harness versions only add workloads and verdicts, so for those rows the list of firing checks is a lower bound. "
          "Seeds with the final harness: %d of %d.")
n_final = 0
for sid in os.listdir(os.path.join(V, "seeded")):
    try:
        if json.load(open(os.path.join(V, "seeded", sid, "meta.json"))).get("harness_commit"):
            n_final += 1
    except Exception:
        pass
table = [legend % (n_final, n + len(retired)), "", "Seeded faults: %d kept, %d confirmed independently, %d detected by the check of the property they target, %d detected by at least one check (quick tier, seed 0). %s." % (n, conf, own, anyc, summary), "",
         "| id | round | change (first line of the sub-agent's notes) | confirmed | own check fires | checks that report a VIOLATION |", "|---|---|---|---|---|---|"] + rows + retired
p = os.path.join(V, "DESIGN.md")
s = open(p).read()
block = "<!-- SEED-TABLE-BEGIN -->\n" + "\n".join(table) + "\n<!-- SEED-TABLE-END -->"
s = re.sub(r"<!-- SEED-TABLE-BEGIN -->.*<!-- SEED-TABLE-END -->", lambda m: block, s, flags=re.S)
open(p, "w").write(s)
print("\n".join(table[:1]))
