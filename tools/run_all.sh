#!/bin/bash
# usage: tools/run_all.sh [quick|thorough] [seed]   -- runs every check, prints one status line each
tier=${1:-quick}; seed=${2:-0}
cd "$(dirname "$0")/.."
fail=0
for i in $(seq -w 1 20); do
  p=C$i
  out=$(VERIF_SEED=$seed ./check $p --tier $tier 2>&1); rc=$?
  echo "$p rc=$rc $(echo "$out" | grep -m1 "^$p $tier" | cut -c1-160)"
  echo "$out" | grep -E "^(VIOLATION|KNOWN-FINDING|INCONCLUSIVE)" | cut -c1-220
  [ $rc -ne 0 ] && fail=1
done
exit $fail
