#!/bin/bash
# usage: tools/confirm_seed.sh <seed dir with patch.diff + demo.(rs|sh)>
# Independent confirmation in a scratch worktree (outside /repo and /verif):
#   suite passes with the patch, demo fails with the patch, demo passes without it.
# Prints one line: CONFIRM suite=<ok|FAIL> demo_with=<fails|PASSES> demo_without=<passes|FAILS>
set -u
sd=$(readlink -f "$1")
wt=/tmp/wt_confirm
export CARGO_TARGET_DIR=/tmp/wt_confirm_target
if [ ! -d $wt ]; then git -C /repo worktree add -q --detach $wt HEAD || exit 3; fi
cd $wt && git checkout -q --detach $(git -C /repo rev-parse HEAD) && git checkout -q -- . && git clean -fdq
rm -rf chiritori/tests
run_demo() {
  if [ -f "$sd/demo.rs" ]; then
    mkdir -p chiritori/tests && cp "$sd/demo.rs" chiritori/tests/seed_demo.rs
    cargo test -p chiritori --offline --test seed_demo >/tmp/wt_confirm_demo.log 2>&1; rc=$?
    rm -rf chiritori/tests
    return $rc
  else
    # shell demos build and run the CLI inside their worktree: point them at this scratch worktree
    # (some demos locate the worktree as the parent of their own directory: run them from <wt>/SEEDED)
    mkdir -p $wt/SEEDED
    sed -e "s#/tmp/seed[0-9]\?_C[0-9]*#$wt#g" "$sd/demo.sh" > $wt/SEEDED/demo.sh
    (cd $wt && env -u CARGO_TARGET_DIR bash $wt/SEEDED/demo.sh) >/tmp/wt_confirm_demo.log 2>&1; rc=$?
    rm -rf $wt/SEEDED
    return $rc
    return $?
  fi
}
git apply "$sd/patch.diff" || { echo "CONFIRM patch does not apply"; exit 3; }
suite=$(cargo test --workspace --offline 2>&1 | grep -E "^test result")
if echo "$suite" | grep -q "FAILED\|failed; [1-9]" || ! echo "$suite" | grep -q "71 passed"; then s=FAIL; else s=ok; fi
run_demo; rc1=$?
git checkout -q -- . && git clean -fdq
run_demo; rc2=$?
echo "CONFIRM suite=$s demo_with=$([ $rc1 -ne 0 ] && echo fails || echo PASSES) demo_without=$([ $rc2 -eq 0 ] && echo passes || echo FAILS)"
