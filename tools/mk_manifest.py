#!/usr/bin/env python3
"""Regenerates /verif/MANIFEST.json (kept in a script so that the 20 entries stay consistent)."""
import json, os, subprocess
V = os.path.dirname(os.path.dirname(os.path.abspath(__file__)))
hooks = subprocess.run(["git", "-C", "/repo", "log", "--format=%h", "--grep=^verif:"], capture_output=True, text=True).stdout.split()

P = {
 "C01": ("5 C01", "catch_unwind + panic-site recorder around the five entry points (overflow checks on), subprocess shards for aborts; thorough tier adds a Miri leg",
         "every execution of clean / list / list_all (pretty, JSON) on generated inputs returned normally with valid UTF-8; inputs: exhaustive atom strings, hostile random sequences, mutated/truncated documents, deep nesting, configuration pool"),
 "C02": ("5 C02/C03", "reference-model monitor: output vs. input minus reference extents (subsequence / whitespace-only-deletion oracles), Decision hook events as diagnosis; the same oracle over results produced by the real binary (subprocess)",
         "on every generated document with >= 1 ready element the output was the input with byte ranges taken out and all non-whitespace text outside the reference extents survived in order"),
 "C03": ("5 C02/C03", "reference-model monitor: output must equal (input minus union of ready extents) up to deletion of spaces, tabs, line breaks; nesting classes counted; the same oracle over results produced by the real binary (subprocess)",
         "on every generated document with >= 1 ready element nothing of a ready element survived, at every nesting class observed (ready in pending / skip / unregistered / ready / unwrapped parents)"),
 "C04": ("5 C04", "reference-model monitor: byte-for-byte identity on documents in which the reference evaluation finds no ready element, at the library and through the real binary (subprocess)",
         "clean(x) == x byte-for-byte on every generated document without a ready element (pending, skip, unregistered, malformed, unclosed, un-unwrappable, junk); the same through the CLI on file/stdin/--output routes incl. BOM, CRLF, missing final line break"),
 "C05": ("5 C05", "reference-model monitor with an independent civil-date implementation; direct evaluator calls, probe documents through clean, Decision hook events, monotone histories, sub-second boundary probes through the real binary",
         "observed decision == (now >= to at the offset) on the second-resolution grid around now / calendar boundaries x offsets -12:00..+14:00 in 15-min steps in both spellings; enumerated malformed values / garbage offsets never ready; removed set grows with time"),
 "C06": ("5 C06", "reference-model monitor: exact set membership + bare-skip rule; evaluator calls, probe documents (all attribute orders), Decision events, the real binary without target option and with whole-string target arguments (commas, blanks) by flag and config file",
         "observed decision == exact case-sensitive membership and no bare skip attribute, for all target sets of size 0..3 over the name pool, all attribute permutations, four tag-name configurations; the binary given no target option removed nothing"),
 "C07": ("5 C07", "structural invariant monitor over tokenize() results (no reference tokenization needed); thorough tier adds a Miri leg",
         "every token list observed was a non-empty, contiguous, boundary-aligned partition whose byte and char spans agree, tags carry their delimiters, no adjacent text tokens; exhaustive over atom strings per delimiter pair up to the recorded bound"),
 "C08": ("5 C08", "differential monitor: tokenize() vs. textbook leftmost-shortest scan; known finding KF-C08 recognised only when the result equals the no-fallback-automaton model exactly",
         "token spans equal the textbook scan on every string where the scan and the no-fallback automaton agree; where they differ the implementation equals the automaton model exactly (KNOWN-FINDING KF-C08); any third behaviour is a violation"),
 "C09": ("5 C09", "round-trip monitor: tags generated from the grammar vs. element_parser::parse; metamorphic opaque-value probes through clean (comment values and valued skip / unwrap-block flags)",
         "every generated well-formed tag parsed to exactly its name and attributes (exhaustive for <= 2 attributes over a small pool, random up to 4 attributes over the adversarial pool, 5 spellings); no quoted-value content changed a removal decision"),
 "C10": ("5 C10", "differential monitor: parser::parse tree (pairs, flattening, parent links) vs. explicit stack model; end to end, the elements the remover evaluates (Decision hook events of a clean call) vs. the same model",
         "pairs, in-order flattening and parent attribution equal the stack rule for every token sequence up to the recorded length over 7 atoms (exhaustive) and random sequences up to 40 tokens, several delimiter pairs"),
 "C11": ("5 C11", "line-level reference monitor on block documents: surviving trimmed line sequence vs. input lines minus the four removed lines; verbatim test for too-short blocks",
         "for every generated unwrap layout (0..6 lines between the tags, odd wrappers, nested elements, any position) exactly the two tag lines and two wrapper lines disappeared and un-unwrappable blocks stayed verbatim"),
 "C12": ("5 C12", "line-level reference monitor: leading whitespace of every surviving inner line vs. R-dedent (outer-to-inner composition, irregular layouts skipped); byte-alignment monitor on CRLF / mixed line ends (nothing but spaces and tabs consumed from inner lines)",
         "every surviving inner line had exactly the reference indentation, unchanged remainder and indentation taken from the old one, for units {2sp,4sp,tab} x tag indent 0..2 x first-line offsets x nesting depth 1..3 x line-1 / later"),
 "C13": ("5 C13", "line-level reference monitor on default-strategy block documents: byte-for-byte surviving lines + blank-line arithmetic a+b-[a>0 and b>0]",
         "surviving non-blank lines byte-identical and in order, blank-line formula exact for every (b,a) in 0..4^2 x blank flavour x indent x neighbours x pending parent x final newline x second block (exhaustive), plus random block documents"),
 "C14": ("5 C14", "alignment monitor: k-th non-whitespace character of (input minus extents) is the k-th of the output, so every untouched stretch owns an exact output span that must equal the trimmed stretch; the same oracle over results produced by the real binary (subprocess)",
         "every maximal untouched stretch (per line inside unwrapped bodies) appeared verbatim at its aligned place, on all documents of the C02/C03 workload incl. inline elements, shared lines, mutated and junk documents"),
 "C15": ("5 C15", "reference-region + hook monitor: list items and highlighted text vs. reference regions; byte union of the CleanMarkers event of clean vs. the same regions (and deleted length); purity by interleaved calls",
         "Ready items == reference regions of the ready elements (count, order, first/last line, highlighted text), the bytes clean deletes before tidying == the union of those regions, list unchanged by interleaved clean / list_all calls, on all documents of the C15 space generated (block, inline, CRLF, bounded-exhaustive line sequences, configuration steps 0..4)"),
 "C16": ("5 C16", "statement-derived item checker (source lines first..last, tabs expanded, one fixed-width number prefix, marker columns) + strict JSON structure check (serde_json) + pretty-vs-JSON agreement with all SGR codes stripped",
         "JSON form valid with exactly the three keys; every annotated_code_block shows exactly its lines behind a fixed-width number prefix with tabs expanded and both markers in the right columns (ASCII prefixes), line_range == lines shown; code blocks occur in order in the colour-stripped pretty form; documents pushed down to line 100 000"),
 "C17": ("5 C17", "reference-region monitor over list_all JSON: (first line, last line, status) sequence vs. R-regions; Ready subsequence vs. list; plus an online law over the hook events of each list_all call (every pending element region listed or wholly inside a listed region, no listed Pending region inside another listed region) that also judges arbitrary text and geometries outside the region model",
         "list_all == Ready regions + outstanding Pending regions in source order for all sibling strings over 8 sibling kinds up to the recorded length (exhaustive) and random documents with many pending elements; the law held on junk / mutated text and with tails of up to 130 pending elements behind wrapper-line templates"),
 "C18": ("5 C18", "relational (metamorphic) monitor: one AST rendered under two spellings, outputs compared after token-wise canonicalisation; renderings that trigger KF-C08 skipped and counted",
         "clean output and list / list_all line ranges identical after canonicalisation for every pair from a pool of 15 delimiter pairs x 5 tag-name pairs on the generated ASTs"),
 "C19": ("5 C19", "history monitor: chains of cleaning runs at non-decreasing configurations; idempotence byte-for-byte, stepwise vs. direct up to whitespace, nothing stranded; the same histories executed by the real binary rewriting the file in place",
         "for all 69 non-decreasing chains of length 1..4 over 4 configuration steps on the generated documents: re-cleaning changed nothing, stepwise == direct up to whitespace, result == input minus final extents"),
 "C20": ("5 C20", "process-boundary monitor: the real binary as a subprocess (argv, stdin, files, env) vs. the in-process library result; thorough tier adds valgrind memcheck runs",
         "bytes identical across {file, stdin} x {stdout, --output, --output=input} x {flags, config file, both} x TZ x locale x 5 modes and equal to the library result; exit status 0; defaults contribute no target"),
}

checks = []
for pid in sorted(P):
    ref, tech, text = P[pid]
    checks.append({
        "property_id": pid,
        "quick_cmd": "./check %s --tier quick" % pid,
        "thorough_cmd": "./check %s --tier thorough" % pid,
        "evidence_file": "/verif/evidence/%s.json" % pid,
        "replay_cmd_template": "./check %s --replay {path}" % pid,
        "engine": "cv",
        "level_claimed": {
            "category": "exploration",
            "text": "Runtime monitoring: " + text + ". Held on the executions counted in the evidence file, not a proof; the property quantifies over inputs/configurations/histories of a deterministic single-threaded function, so an oracle over executions of the real code is the applicable level for this technique family.",
            "design_ref": "DESIGN.md section " + ref,
        },
        "level_note": "Trusted base: the reference model and oracles in /verif/harness/src (refmodel.rs, oracle.rs, judge.rs), the generators' ground-truth spans (self-checked against the reference scan), rustc/cargo, and that the verif-hooks feature only records events. Inputs outside the generators' reach are not covered; skipped input classes are counted per reason in the evidence.",
        "technique": tech,
    })

m = {
    "version": 1,
    "setup_cmd": "./check --setup",
    "hooks": {
        "guard": "cargo feature `verif-hooks` on the `chiritori` crate (off by default)",
        "enable": "/verif/harness/Cargo.toml path-depends on /repo/chiritori with features = [\"verif-hooks\"]; ./check rebuilds it from /repo's working tree on every run",
        "baseline_off_cmd": "cd /repo && cargo test --workspace --no-fail-fast --offline",
        "source_commits": hooks,
        "add_only": True,
    },
    "engines": [
        {"name": "cv", "path": "/verif/harness", "serves_properties": sorted(P),
         "kind_free_text": "Rust harness linking the real library (feature verif-hooks, overflow checks on): workload generators, independent reference model, one runtime monitor per property, 16 subprocess shards orchestrated by /verif/check; Miri leg (C01, C07 thorough), valgrind memcheck leg (C20 thorough)"},
    ],
    "checks": checks,
    "not_applicable": [],
    "notes": "Exit codes of every check: 0 held / 1 VIOLATION line / 2 inconclusive (never folded into the others). Known findings: /verif/known_findings.json (open: KF-C08 only; 16 defects were repaired by 15 fix: commits, listed there as fixed), printed as KNOWN-FINDING lines only when the exact classifier recognises the execution. Seeded faults used to validate the monitors: /verif/seeded/.",
}
json.dump(m, open(os.path.join(V, "MANIFEST.json"), "w"), indent=1, ensure_ascii=False)
print("wrote MANIFEST.json with", len(checks), "checks; hook commits", hooks)
