#!/usr/bin/env python3
"""Runs every seeded fault under /verif/seeded/<id>/ that has no meta.json yet (or all with --force):
confirm in a scratch worktree, then apply to /repo, run all quick checks, restore /repo.
Writes seeded/<id>/meta.json and prints a summary table."""
import json, os, re, subprocess, sys, time
V = os.path.dirname(os.path.dirname(os.path.abspath(__file__)))
force = "--force" in sys.argv
only = [a for a in sys.argv[1:] if not a.startswith("--")]
ids = sorted(d for d in os.listdir(os.path.join(V, "seeded")) if os.path.isdir(os.path.join(V, "seeded", d)))
for sid in ids:
    sd = os.path.join(V, "seeded", sid)
    if only and sid not in only:
        continue
    if os.path.exists(os.path.join(sd, "meta.json")) and not force:
        continue
    if not os.path.exists(os.path.join(sd, "patch.diff")):
        continue
    t0 = time.time()
    # --reuse-confirmation: a seed confirmed earlier (same patch file) is not confirmed again
    import hashlib
    ph = hashlib.sha256(open(os.path.join(sd, "patch.diff"), "rb").read()).hexdigest()[:16]
    old = {}
    try:
        old = json.load(open(os.path.join(sd, "meta.json")))
    except Exception:
        pass
    if "--reuse-confirmation" in sys.argv and old.get("confirmed") and old.get("patch_sha", ph) == ph and not os.path.exists(os.path.join(sd, "patch.orig-5cd99a9.diff")):
        confirm = old["confirmation"]
    else:
        c = subprocess.run([os.path.join(V, "tools/confirm_seed.sh"), sd], capture_output=True, text=True, errors="replace")
        confirm = (c.stdout.strip().splitlines() or ["CONFIRM ?"])[-1]
    ok = "suite=ok demo_with=fails demo_without=passes" in confirm
    t = subprocess.run([os.path.join(V, "tools/try_seed.sh"), os.path.join(sd, "patch.diff")] + os.environ.get("SEED_PROPS", "").split(), capture_output=True, text=True, errors="replace")
    out = t.stdout
    fired = re.findall(r"^FIRED: (.*)$", out, re.M)
    fired = fired[-1].split() if fired and fired[-1] != "none" else []
    incon = re.findall(r"^(C\d+) rc=2", out, re.M)
    details = {}
    for m in re.finditer(r"^(C\d+) rc=1 .*?; (.*)$", out, re.M):
        details[m.group(1)] = m.group(2)[:240]
    notes = ""
    try:
        notes = open(os.path.join(sd, "notes.md")).read()
    except Exception:
        pass
    meta = {
        "id": sid,
        "harness_commit": subprocess.run(["git", "-C", V, "rev-parse", "--short", "HEAD"], capture_output=True, text=True, errors="replace").stdout.strip()
                          + ("+uncommitted" if subprocess.run(["git", "-C", V, "status", "--porcelain", "harness", "check"], capture_output=True, text=True, errors="replace").stdout.strip() else ""),
        "repo_commit": subprocess.run(["git", "-C", "/repo", "rev-parse", "--short", "HEAD"], capture_output=True, text=True, errors="replace").stdout.strip(),
        "property": sid.split("-")[0],
        "patch_sha": ph,
        "confirmed": ok,
        "confirmation": confirm,
        "what_i_ran": ["tools/confirm_seed.sh seeded/%s  (scratch worktree /tmp/wt_confirm: suite with patch, demo with patch, demo without patch)" % sid,
                       "tools/try_seed.sh seeded/%s/patch.diff  (git -C /repo apply; every ./check <ID> --tier quick; git -C /repo checkout -- .)" % sid],
        "fired": fired,
        "checks_run": os.environ.get("SEED_PROPS", "").split() or "all twenty",
        **({"round": int(os.environ["SEED_ROUND"])} if os.environ.get("SEED_ROUND") else {}),
        "inconclusive": incon,
        "detected_by_own_property": sid.split("-")[0] in fired,
        "first_violation_lines": details,
        "needs_to_manifest": "see notes.md (written by the sub-agent that produced the change)",
        "wall_s": round(time.time() - t0, 1),
    }
    json.dump(meta, open(os.path.join(sd, "meta.json"), "w"), indent=1, ensure_ascii=False)
    print("%s confirmed=%s fired=%s incon=%s (%.0fs)" % (sid, ok, ",".join(fired) or "none", ",".join(incon) or "-", time.time() - t0), flush=True)
