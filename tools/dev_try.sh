#!/bin/bash
# usage: tools/dev_try.sh <patch.diff|none> PROP [PROP...]   (development helper)
# Runs the monitors from /verif/harness's CURRENT sources against a scratch worktree (/tmp/wt_clean)
# so that /repo is not touched. Not part of the registered checks.
patch=$1; shift; [ "$patch" != none ] && patch=$(readlink -f "$patch")
rsync -a --delete --exclude target --exclude Cargo.toml ${DEVSRC:-/verif/harness}/ /tmp/hdev/
cd /tmp/wt_clean && git checkout -q -- . && git clean -fdq
[ "$patch" != none ] && { git apply "$patch" || exit 3; }
cd /tmp/hdev && CARGO_TARGET_DIR=/verif/build/harness_dev cargo build --release --offline --bin cv 2>&1 | grep -E "^error" -A5
# the binary legs (C04, C06, C20) use a CLI built from the scratch worktree
(cd /tmp/wt_clean && cargo build --release --offline -p chiritori-cli --target-dir /verif/build/cli_dev 2>&1 | grep -E "^error" -A5)
export CV_CLI_BIN=/verif/build/cli_dev/release/chiritori CV_TMP=/verif/build/tmp_dev TZ=UTC
for p in "$@"; do
  for i in $(seq 0 15); do
    /verif/build/harness_dev/release/cv run $p --tier ${TIER:-quick} --seed ${SEED:-0} --shard $i/16 --out /tmp/hdev_out_$p.$i.json --known /verif/known_findings.json &
  done; wait
  python3 - "$p" <<'PY'
import json,sys,glob
p=sys.argv[1]; ev=vc=0; first=None; inc=[]
for f in glob.glob('/tmp/hdev_out_%s.*.json'%p):
    if f.endswith('.json'):
        d=json.load(open(f)); ev+=d['evaluations']; vc+=d['violation_count']; inc+=d['inconclusive']
        if d['violations'] and first is None: first=min(d['violations'], key=lambda v: len(json.dumps(v)))
print(p, 'evaluations', ev, 'violations', vc, 'inconclusive', inc[:2])
if first: print('   ', first['kind'], first['detail'][:500])
PY
done
cd /tmp/wt_clean && git checkout -q -- . && git clean -fdq
