//! Per-shard run context: counters, verdict collection, evidence accounting.

use crate::api::PanicInfo;
use serde_json::{json, Map, Value};
use std::collections::{BTreeMap, HashSet};
use std::io::{Seek, SeekFrom, Write};
use std::time::{Duration, Instant};

#[derive(Clone, Copy, Debug, PartialEq)]
pub enum Tier {
    Quick,
    Thorough,
}

impl Tier {
    pub fn name(&self) -> &'static str {
        match self {
            Tier::Quick => "quick",
            Tier::Thorough => "thorough",
        }
    }
    pub fn pick<T>(&self, quick: T, thorough: T) -> T {
        match self {
            Tier::Quick => quick,
            Tier::Thorough => thorough,
        }
    }
}

const MAX_VIOLATIONS_KEPT: usize = 12;
const MAX_SAMPLES: usize = 5;
const NONTRIVIAL_CAP: usize = 3_000_000;

pub struct Ctx {
    pub prop: String,
    pub tier: Tier,
    pub seed: u64,
    pub shard: u64,
    pub nshards: u64,
    pub evaluations: u64,
    nontrivial: HashSet<u64>,
    nontrivial_capped: bool,
    shapes: HashSet<u64>,
    pub counters: BTreeMap<String, u64>,
    pub skipped: BTreeMap<String, u64>,
    pub known: BTreeMap<String, (u64, Vec<Value>)>,
    pub violations: Vec<Value>,
    pub violation_count: u64,
    pub inconclusive: Vec<String>,
    pub samples: Vec<Value>,
    pub panic_sites: BTreeMap<String, u64>,
    pub notes: Map<String, Value>,
    pub open_findings: HashSet<String>,
    trace: Option<std::fs::File>,
    next_sample_at: u64,
    started: Instant,
    budget: Duration,
    pub stopped_by_time: bool,
}

impl Ctx {
    pub fn new(prop: &str, tier: Tier, seed: u64, shard: u64, nshards: u64) -> Ctx {
        Ctx {
            prop: prop.to_string(),
            tier,
            seed,
            shard,
            nshards,
            evaluations: 0,
            nontrivial: HashSet::new(),
            nontrivial_capped: false,
            shapes: HashSet::new(),
            counters: BTreeMap::new(),
            skipped: BTreeMap::new(),
            known: BTreeMap::new(),
            violations: vec![],
            violation_count: 0,
            inconclusive: vec![],
            samples: vec![],
            panic_sites: BTreeMap::new(),
            notes: Map::new(),
            open_findings: HashSet::new(),
            trace: None,
            next_sample_at: 0,
            started: Instant::now(),
            budget: Duration::from_secs(match tier {
                Tier::Quick => 40,
                Tier::Thorough => 600,
            }),
            stopped_by_time: false,
        }
    }

    pub fn set_budget_secs(&mut self, s: u64) {
        self.budget = Duration::from_secs(s);
    }

    pub fn set_trace(&mut self, path: &str) {
        self.trace = std::fs::OpenOptions::new()
            .create(true)
            .write(true)
            .truncate(true)
            .open(path)
            .ok();
    }

    /// Record the input about to be executed (only in trace mode; used to isolate aborts).
    pub fn before_exec(&mut self, describe: impl FnOnce() -> Value) {
        if let Some(f) = self.trace.as_mut() {
            let s = describe().to_string();
            let _ = f.seek(SeekFrom::Start(0));
            let _ = f.set_len(0);
            let _ = f.write_all(s.as_bytes());
            let _ = f.flush();
        }
    }

    pub fn tracing(&self) -> bool {
        self.trace.is_some()
    }

    /// Fraction of the time budget used (0.0 ..).
    pub fn time_used(&self) -> f64 {
        self.started.elapsed().as_secs_f64() / self.budget.as_secs_f64()
    }

    /// true when the whole budget is used up; monitors poll this in their outer loops.
    pub fn out_of_time(&mut self) -> bool {
        if self.started.elapsed() >= self.budget {
            self.stopped_by_time = true;
            true
        } else {
            false
        }
    }

    /// true when more than `frac` of the budget is used (for staging several workloads).
    pub fn past(&mut self, frac: f64) -> bool {
        if self.time_used() >= frac {
            if frac >= 1.0 {
                self.stopped_by_time = true;
            }
            true
        } else {
            false
        }
    }

    pub fn eval(&mut self) {
        self.evaluations += 1;
    }

    pub fn evals(&mut self, n: u64) {
        self.evaluations += n;
    }

    pub fn nontrivial(&mut self, h: u64) {
        if self.nontrivial.len() < NONTRIVIAL_CAP {
            self.nontrivial.insert(h);
        } else {
            self.nontrivial_capped = true;
        }
    }

    pub fn shape(&mut self, h: u64) {
        if self.shapes.len() < 500_000 {
            self.shapes.insert(h);
        }
    }

    pub fn count(&mut self, key: &str) {
        *self.counters.entry(key.to_string()).or_insert(0) += 1;
    }

    pub fn count_n(&mut self, key: &str, n: u64) {
        *self.counters.entry(key.to_string()).or_insert(0) += n;
    }

    pub fn skip(&mut self, reason: &str) {
        *self.skipped.entry(reason.to_string()).or_insert(0) += 1;
    }

    pub fn panic_site(&mut self, p: &PanicInfo) {
        *self
            .panic_sites
            .entry(crate::api::short_loc(&p.loc))
            .or_insert(0) += 1;
    }

    pub fn sample(&mut self, v: impl FnOnce() -> Value) {
        if self.samples.len() < MAX_SAMPLES {
            self.samples.push(v());
        }
    }

    pub fn want_sample(&self) -> bool {
        self.samples.len() < MAX_SAMPLES
    }

    /// true when a sample should be taken now: the first few held cases at exponentially
    /// growing distances (evaluation 1, ~20, ~400, ...), so samples are never empty and not all
    /// from the very beginning of the workload.
    pub fn sample_due(&mut self) -> bool {
        if self.samples.len() >= MAX_SAMPLES || self.evaluations < self.next_sample_at {
            return false;
        }
        self.next_sample_at = self.evaluations * 20 + 1;
        true
    }

    pub fn is_open(&self, kf: &str) -> bool {
        self.open_findings.contains(kf)
    }

    /// A violation recognised exactly as open known finding `kf`.
    pub fn known_finding(&mut self, kf: &str, example: impl FnOnce() -> Value) {
        let e = self.known.entry(kf.to_string()).or_insert((0, vec![]));
        e.0 += 1;
        if e.1.len() < 3 {
            e.1.push(example());
        }
    }

    /// A new violation. `replay` must contain everything needed to re-run the single case.
    pub fn violation(&mut self, kind: &str, detail: String, replay: Value) {
        self.violation_count += 1;
        *self
            .counters
            .entry(format!("violation:{kind}"))
            .or_insert(0) += 1;
        if self.violations.len() < MAX_VIOLATIONS_KEPT {
            // keep the smallest witnesses: replace the largest kept one if this is smaller
            self.violations.push(json!({
                "property": self.prop, "kind": kind, "detail": detail, "replay": replay,
            }));
        } else {
            let size = |v: &Value| v.to_string().len();
            let new = json!({
                "property": self.prop, "kind": kind, "detail": detail, "replay": replay,
            });
            if let Some((i, _)) = self
                .violations
                .iter()
                .enumerate()
                .max_by_key(|(_, v)| size(v))
            {
                if size(&new) < size(&self.violations[i]) {
                    self.violations[i] = new;
                }
            }
        }
    }

    pub fn inconclusive(&mut self, why: &str) {
        if self.inconclusive.len() < 20 {
            self.inconclusive.push(why.to_string());
        }
    }

    pub fn note(&mut self, k: &str, v: Value) {
        self.notes.insert(k.to_string(), v);
    }

    pub fn nontrivial_count(&self) -> usize {
        self.nontrivial.len()
    }

    pub fn finish(&self, out_path: &str) -> std::io::Result<()> {
        // hashes as a binary side file (little-endian u64), merged exactly by `cv merge-hashes`
        let mut hf = std::fs::File::create(format!("{out_path}.hashes"))?;
        let mut buf = Vec::with_capacity(self.nontrivial.len() * 8);
        for h in &self.nontrivial {
            buf.extend_from_slice(&h.to_le_bytes());
        }
        hf.write_all(&buf)?;
        let mut sf = std::fs::File::create(format!("{out_path}.shapes"))?;
        let mut buf = Vec::with_capacity(self.shapes.len() * 8);
        for h in &self.shapes {
            buf.extend_from_slice(&h.to_le_bytes());
        }
        sf.write_all(&buf)?;
        let known: Map<String, Value> = self
            .known
            .iter()
            .map(|(k, (n, ex))| (k.clone(), json!({"count": n, "examples": ex})))
            .collect();
        let v = json!({
            "property": self.prop,
            "tier": self.tier.name(),
            "seed": self.seed,
            "shard": self.shard,
            "nshards": self.nshards,
            "evaluations": self.evaluations,
            "nontrivial_in_shard": self.nontrivial.len(),
            "nontrivial_capped": self.nontrivial_capped,
            "shapes_in_shard": self.shapes.len(),
            "counters": self.counters,
            "skipped": self.skipped,
            "known": known,
            "violations": self.violations,
            "violation_count": self.violation_count,
            "inconclusive": self.inconclusive,
            "samples": self.samples,
            "panic_sites": self.panic_sites,
            "notes": self.notes,
            "stopped_by_time": self.stopped_by_time,
            "wall_s": self.started.elapsed().as_secs_f64(),
        });
        std::fs::write(out_path, serde_json::to_vec(&v)?)
    }
}
