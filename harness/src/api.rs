//! Boundary to the code under test: every call into chiritori goes through here, under
//! `catch_unwind`, with the verif-hooks event log captured per call.

use chiritori::chiritori::{
    clean, list, list_all, ChiritoriConfiguration, ListFormat, RemovalMarkerConfiguration,
    TimeLimitedConfiguration,
};
#[cfg(feature = "hooks")]
pub use chiritori::verif::Event;

/// Fallback when the repository does not build with its `verif-hooks` feature (e.g. a change in
/// /repo touched code that a hook call site refers to): the harness is then built without hooks,
/// no event is ever observed and every monitor falls back to what it sees at the public API.
#[cfg(not(feature = "hooks"))]
#[derive(Debug, Clone, PartialEq)]
pub enum Event {
    Decision {
        open_start: usize,
        close_end: usize,
        name: String,
        is_skip: bool,
        evaluator: Option<bool>,
        outcome: Option<((usize, usize), Option<(usize, usize)>, bool)>,
    },
    CleanMarkers {
        markers: Vec<(usize, usize, Option<usize>)>,
        source_len: usize,
        removed_len: usize,
    },
    RemovedPos { positions: Vec<(usize, Option<usize>)> },
    FormatRanges { ranges: Vec<(usize, usize)> },
    ListMarkers {
        all: bool,
        markers: Vec<(usize, usize, Option<usize>, bool)>,
    },
}

pub const HOOKS_ENABLED: bool = cfg!(feature = "hooks");
use std::cell::RefCell;
use std::collections::HashSet;
use std::panic;
use std::rc::Rc;

/// Spelling: delimiters and the two tag names.
#[derive(Clone, Debug, PartialEq)]
pub struct Sp {
    pub ds: String,
    pub de: String,
    pub tl: String,
    pub mk: String,
}

impl Sp {
    pub fn new(ds: &str, de: &str, tl: &str, mk: &str) -> Sp {
        Sp {
            ds: ds.into(),
            de: de.into(),
            tl: tl.into(),
            mk: mk.into(),
        }
    }
    pub fn json(&self) -> serde_json::Value {
        serde_json::json!({"ds": self.ds, "de": self.de, "tl": self.tl, "mk": self.mk})
    }
    pub fn from_json(v: &serde_json::Value) -> Option<Sp> {
        Some(Sp::new(
            v.get("ds")?.as_str()?,
            v.get("de")?.as_str()?,
            v.get("tl")?.as_str()?,
            v.get("mk")?.as_str()?,
        ))
    }
}

/// Run configuration: current instant (RFC 3339), offset string, target set.
#[derive(Clone, Debug, PartialEq)]
pub struct Cfg {
    pub now: String,
    pub offset: String,
    pub targets: Vec<String>,
}

impl Cfg {
    pub fn new(now: &str, offset: &str, targets: &[&str]) -> Cfg {
        Cfg {
            now: now.into(),
            offset: offset.into(),
            targets: targets.iter().map(|s| s.to_string()).collect(),
        }
    }
    pub fn json(&self) -> serde_json::Value {
        serde_json::json!({"now": self.now, "offset": self.offset, "targets": self.targets})
    }
    pub fn from_json(v: &serde_json::Value) -> Option<Cfg> {
        Some(Cfg {
            now: v.get("now")?.as_str()?.to_string(),
            offset: v.get("offset")?.as_str()?.to_string(),
            targets: v
                .get("targets")?
                .as_array()?
                .iter()
                .filter_map(|x| x.as_str().map(|s| s.to_string()))
                .collect(),
        })
    }
}

pub fn parse_now(now: &str) -> chrono::DateTime<chrono::Local> {
    now.parse::<chrono::DateTime<chrono::Local>>()
        .unwrap_or_else(|_| panic!("harness: bad now {now:?}"))
}

pub fn mk_config(sp: &Sp, cfg: &Cfg) -> ChiritoriConfiguration {
    ChiritoriConfiguration {
        time_limited_configuration: TimeLimitedConfiguration {
            tag_name: sp.tl.clone(),
            time_offset: cfg.offset.clone(),
            current: parse_now(&cfg.now),
        },
        removal_marker_configuration: RemovalMarkerConfiguration {
            tag_name: sp.mk.clone(),
            targets: cfg.targets.iter().cloned().collect::<HashSet<_>>(),
        },
    }
}

#[derive(Clone, Debug)]
pub struct PanicInfo {
    pub msg: String,
    pub loc: String,
}

thread_local! {
    static LAST_PANIC_LOC: RefCell<String> = const { RefCell::new(String::new()) };
}

/// Last panic (message @ location) of any thread; read by the worker when the harness itself dies.
pub static LAST_PANIC_GLOBAL: std::sync::Mutex<String> = std::sync::Mutex::new(String::new());

/// Install a silent panic hook that records the location of the last panic.
pub fn install_panic_hook() {
    panic::set_hook(Box::new(|info| {
        let loc = info
            .location()
            .map(|l| format!("{}:{}", l.file(), l.line()))
            .unwrap_or_default();
        let msg = info
            .payload()
            .downcast_ref::<String>()
            .cloned()
            .or(info.payload().downcast_ref::<&str>().map(|s| s.to_string()))
            .unwrap_or_default();
        if let Ok(mut g) = LAST_PANIC_GLOBAL.lock() {
            *g = format!("{msg} @ {loc}");
        }
        LAST_PANIC_LOC.with(|c| *c.borrow_mut() = loc);
    }));
}

fn payload_msg(e: Box<dyn std::any::Any + Send>) -> String {
    e.downcast_ref::<String>()
        .cloned()
        .or(e.downcast_ref::<&str>().map(|s| s.to_string()))
        .unwrap_or_else(|| "?".into())
}

/// Run `f` under catch_unwind with the event log on. Returns value + events, or panic info.
pub fn guarded<T, F: FnOnce() -> T + panic::UnwindSafe>(f: F) -> Result<(T, Vec<Event>), PanicInfo> {
    #[cfg(feature = "hooks")]
    chiritori::verif::start();
    let r = panic::catch_unwind(f);
    #[cfg(feature = "hooks")]
    let ev = chiritori::verif::take();
    #[cfg(not(feature = "hooks"))]
    let ev: Vec<Event> = vec![];
    match r {
        Ok(v) => Ok((v, ev)),
        Err(e) => Err(PanicInfo {
            msg: payload_msg(e),
            loc: LAST_PANIC_LOC.with(|c| c.borrow().clone()),
        }),
    }
}

/// Strip the crate-relative part of a panic location ("…/chiritori/src/x.rs:12" -> "chiritori/src/x.rs:12").
pub fn short_loc(loc: &str) -> String {
    match loc.find("chiritori/src/") {
        Some(i) => loc[i..].to_string(),
        None => {
            // dependency / std location: keep the last two path components
            let parts: Vec<&str> = loc.rsplitn(3, '/').collect();
            if parts.len() >= 2 {
                format!("{}/{}", parts[1], parts[0])
            } else {
                loc.to_string()
            }
        }
    }
}

#[derive(Clone, Copy, Debug, PartialEq, Eq, Hash, PartialOrd, Ord)]
pub enum Entry {
    Clean,
    ListPretty,
    ListJson,
    ListAllPretty,
    ListAllJson,
}

pub const ENTRIES: [Entry; 5] = [
    Entry::Clean,
    Entry::ListPretty,
    Entry::ListJson,
    Entry::ListAllPretty,
    Entry::ListAllJson,
];

impl Entry {
    pub fn name(&self) -> &'static str {
        match self {
            Entry::Clean => "clean",
            Entry::ListPretty => "list",
            Entry::ListJson => "list-json",
            Entry::ListAllPretty => "list-all",
            Entry::ListAllJson => "list-all-json",
        }
    }
    pub fn from_name(s: &str) -> Option<Entry> {
        ENTRIES.iter().copied().find(|e| e.name() == s)
    }
}

pub fn call(entry: Entry, text: &str, sp: &Sp, cfg: &Cfg) -> Result<(String, Vec<Event>), PanicInfo> {
    let content = text.to_string();
    let sp = sp.clone();
    let cfg = cfg.clone();
    guarded(move || {
        let c = mk_config(&sp, &cfg);
        let d = (sp.ds.clone(), sp.de.clone());
        let rc = Rc::new(content);
        match entry {
            Entry::Clean => clean(rc, d, c),
            Entry::ListPretty => list(rc, d, c, ListFormat::PrettyString).unwrap(),
            Entry::ListJson => list(rc, d, c, ListFormat::JSON).unwrap(),
            Entry::ListAllPretty => list_all(rc, d, c, ListFormat::PrettyString).unwrap(),
            Entry::ListAllJson => list_all(rc, d, c, ListFormat::JSON).unwrap(),
        }
    })
}

pub fn call_clean(text: &str, sp: &Sp, cfg: &Cfg) -> Result<(String, Vec<Event>), PanicInfo> {
    call(Entry::Clean, text, sp, cfg)
}

/// Token as (byte_start, byte_end, char_start, char_end, is_tag, value)
#[derive(Clone, Debug, PartialEq)]
pub struct Tok {
    pub bs: usize,
    pub be: usize,
    pub cs: usize,
    pub ce: usize,
    pub tag: bool,
    pub value: String,
}

pub fn call_tokenize(src: &str, ds: &str, de: &str) -> Result<Vec<Tok>, PanicInfo> {
    let (s, a, b) = (src.to_string(), ds.to_string(), de.to_string());
    guarded(move || {
        chiritori::tokenizer::tokenize(&s, &a, &b)
            .iter()
            .map(|t| Tok {
                bs: t.byte_start,
                be: t.byte_end,
                cs: t.start,
                ce: t.end,
                tag: matches!(t.kind, chiritori::tokenizer::TokenKind::Element(_)),
                value: t.value.to_string(),
            })
            .collect()
    })
    .map(|(v, _)| v)
}

/// Parsed tag: name + attributes.
pub type ParsedTag = (String, Vec<(String, Option<String>)>);

/// tokenize `src`; require exactly one token, a tag; return element_parser::parse of it.
/// Ok(None) = parser returned None; Err = panic; Ok(Some(Err(n))) = token count n != 1 or not a tag.
pub fn call_parse_single_tag(
    src: &str,
    ds: &str,
    de: &str,
) -> Result<Result<Option<ParsedTag>, String>, PanicInfo> {
    let (s, a, b) = (src.to_string(), ds.to_string(), de.to_string());
    guarded(move || {
        let toks = chiritori::tokenizer::tokenize(&s, &a, &b);
        if toks.len() != 1 {
            return Err(format!("{} tokens", toks.len()));
        }
        if !matches!(toks[0].kind, chiritori::tokenizer::TokenKind::Element(_)) {
            return Err("single token is text".to_string());
        }
        Ok(chiritori::element_parser::parse(&toks[0]).map(|e| {
            (
                e.name.to_string(),
                e.attrs
                    .iter()
                    .map(|a| (a.name.to_string(), a.value.map(|v| v.to_string())))
                    .collect(),
            )
        }))
    })
    .map(|(v, _)| v)
}

/// Flattened parse tree: pairs (open token byte_start, close token byte_start) and the in-order
/// token sequence (byte_start of every token as it appears in the tree), and parent links
/// (for every element: open byte_start -> parent's open byte_start or None).
#[derive(Clone, Debug, Default, PartialEq)]
pub struct FlatTree {
    pub pairs: Vec<(usize, usize)>,
    pub order: Vec<usize>,
    pub parents: Vec<(usize, Option<usize>)>,
    pub token_starts: Vec<usize>,
}

pub fn call_parse_tree(src: &str, ds: &str, de: &str) -> Result<FlatTree, PanicInfo> {
    use chiritori::parser::{self, ContentPart};
    let (s, a, b) = (src.to_string(), ds.to_string(), de.to_string());
    fn flat(parts: &[ContentPart], parent: Option<usize>, ft: &mut FlatTree) {
        for p in parts {
            match p {
                ContentPart::Text(t) => ft.order.push(t.token.byte_start),
                ContentPart::Element(e) => {
                    ft.order.push(e.start_token.byte_start);
                    ft.pairs
                        .push((e.start_token.byte_start, e.end_token.byte_start));
                    ft.parents.push((e.start_token.byte_start, parent));
                    flat(&e.children, Some(e.start_token.byte_start), ft);
                    ft.order.push(e.end_token.byte_start);
                }
            }
        }
    }
    guarded(move || {
        let toks = chiritori::tokenizer::tokenize(&s, &a, &b);
        let parsed = parser::parse(&toks);
        let mut ft = FlatTree::default();
        flat(&parsed, None, &mut ft);
        ft.token_starts = toks.iter().map(|t| t.byte_start).collect();
        ft
    })
    .map(|(v, _)| v)
}

/// Direct evaluator calls (C05 / C06).
pub fn call_time_eval(to: Option<Option<&str>>, offset: &str, now: &str) -> Result<bool, PanicInfo> {
    use chiritori::code::remover::removal_evaluator::{
        time_limited_evaluator::TimeLimitedEvaluator, RemovalEvaluator,
    };
    use chiritori::element_parser::{Attribute, Element};
    let to_owned: Option<Option<String>> = to.map(|o| o.map(|s| s.to_string()));
    let (offset, now) = (offset.to_string(), now.to_string());
    guarded(move || {
        let ev = TimeLimitedEvaluator {
            current_time: parse_now(&now),
            time_offset: offset,
        };
        let attrs = match &to_owned {
            None => vec![],
            Some(v) => vec![Attribute {
                name: "to",
                value: v.as_deref(),
            }],
        };
        let el = Element { name: "tl", attrs };
        ev.is_removal(&el)
    })
    .map(|(v, _)| v)
}

pub fn call_marker_eval(
    attrs: &[(String, Option<String>)],
    targets: &[String],
) -> Result<bool, PanicInfo> {
    use chiritori::code::remover::removal_evaluator::{
        marker_evaluator::MarkerEvaluator, RemovalEvaluator,
    };
    use chiritori::element_parser::{Attribute, Element};
    let attrs = attrs.to_vec();
    let targets: HashSet<String> = targets.iter().cloned().collect();
    guarded(move || {
        let ev = MarkerEvaluator {
            marker_removal_names: targets,
        };
        let el = Element {
            name: "m",
            attrs: attrs
                .iter()
                .map(|(n, v)| Attribute {
                    name: n.as_str(),
                    value: v.as_deref(),
                })
                .collect(),
        };
        ev.is_removal(&el)
    })
    .map(|(v, _)| v)
}
