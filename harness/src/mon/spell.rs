//! C18 behaviour is independent of the spelling of delimiters and tag names (relational).

use crate::api::{self, Entry, Sp};
use crate::ctx::{Ctx, Tier};
use crate::doc::*;
use crate::gen::*;
use crate::judge::{parse_list_json, recognition_in_dispute, spans_consistent};
use crate::refmodel::rscan;
use crate::util::*;
use serde_json::{json, Value};

/// Token-wise canonical form: R-scan the text under its spelling; text tokens verbatim; in tag
/// tokens the delimiters and the tag-name word are replaced by sentinels.
pub fn canon(out: &str, sp: &Sp) -> String {
    let mut r = String::new();
    for (a, b, tag) in rscan(out, &sp.ds, &sp.de) {
        let s = &out[a..b];
        if !tag {
            r.push_str(s);
            continue;
        }
        let body = &s[sp.ds.len()..s.len() - sp.de.len()];
        r.push('\u{1}');
        // name word = first run of non-separator characters after optional spaces
        let lead = body.len() - body.trim_start_matches(' ').len();
        let rest = &body[lead..];
        let end = rest.find([' ', '\n']).unwrap_or(rest.len());
        let word = &rest[..end];
        let (slash, base) = match word.strip_prefix('/') {
            Some(b) => ("/", b),
            None => ("", word),
        };
        r.push_str(&body[..lead]);
        r.push_str(slash);
        if base == sp.tl {
            r.push('\u{3}');
        } else if base == sp.mk {
            r.push('\u{4}');
        } else {
            r.push_str(base);
        }
        r.push_str(&rest[end..]);
        r.push('\u{2}');
    }
    r
}

struct Obs {
    clean: String,
    list: Vec<(usize, usize, bool)>,
    list_all: Vec<(usize, usize, bool)>,
}

fn observe(text: &str, sp: &Sp) -> Result<Obs, String> {
    let cfg = step_cfg(STEP);
    let (clean, _) = api::call(Entry::Clean, text, sp, &cfg).map_err(|p| format!("clean panicked @ {}", api::short_loc(&p.loc)))?;
    let (l, _) = api::call(Entry::ListJson, text, sp, &cfg).map_err(|p| format!("list panicked @ {}", api::short_loc(&p.loc)))?;
    let (la, _) = api::call(Entry::ListAllJson, text, sp, &cfg).map_err(|p| format!("list_all panicked @ {}", api::short_loc(&p.loc)))?;
    let f = |js: &str| -> Result<Vec<(usize, usize, bool)>, String> {
        Ok(parse_list_json(js)?.into_iter().map(|i| (i.first, i.last, i.ready)).collect())
    };
    Ok(Obs {
        clean: canon(&clean, sp),
        list: f(&l)?,
        list_all: f(&la)?,
    })
}

fn judge_pair(ctx: &mut Ctx, a: &Rendered, spa: &Sp, b: &Rendered, spb: &Sp, gen_name: &str) {
    for (rd, sp) in [(a, spa), (b, spb)] {
        if recognition_in_dispute(&rd.text, sp) {
            ctx.skip("a rendering triggers KF-C08 (recognition in dispute); C18 is about behaviour given recognition");
            return;
        }
        if !spans_consistent(rd, sp) {
            ctx.skip("delimiter characters occur outside tags under this spelling");
            return;
        }
    }
    ctx.eval();
    let rp = || json!({"kind": "spell", "a": a.json(), "spa": spa.json(), "b": b.json(), "spb": spb.json()});
    let (oa, ob) = match (observe(&a.text, spa), observe(&b.text, spb)) {
        (Ok(x), Ok(y)) => (x, y),
        (Err(m), _) | (_, Err(m)) => {
            ctx.violation(gen_name, m, rp());
            return;
        }
    };
    if oa.clean != ob.clean {
        ctx.violation(
            gen_name,
            format!(
                "clean differs between spellings {:?}/{:?} and {:?}/{:?}: {:?} vs {:?}",
                spa.ds, spa.de, spb.ds, spb.de, trunc(&oa.clean, 300), trunc(&ob.clean, 300)
            ),
            rp(),
        );
        return;
    }
    if oa.list != ob.list || oa.list_all != ob.list_all {
        ctx.violation(
            gen_name,
            format!(
                "listing line ranges differ between spellings {:?}/{:?} and {:?}/{:?}: {:?} vs {:?}",
                spa.ds, spa.de, spb.ds, spb.de, oa.list_all, ob.list_all
            ),
            rp(),
        );
        return;
    }
    if !a.elems.is_empty() {
        ctx.nontrivial(hash64(&[a.text.as_bytes(), b.text.as_bytes()]));
        ctx.count(&format!("pair:{}|{}", spa.ds, spb.ds));
        if a.elems.iter().any(|e| e.ready(STEP)) {
            ctx.count("pairs-with-ready-element");
        }
    }
    if ctx.sample_due() {
        ctx.sample(|| json!({"spelling_a": spa.json(), "input_a": trunc(&a.text, 300), "spelling_b": spb.json(), "input_b": trunc(&b.text, 300), "list_all": oa.list_all}));
    }
}

pub fn run(ctx: &mut Ctx) {
    let quick = ctx.tier == Tier::Quick;
    ctx.set_budget_secs(if quick { 22 } else { 300 });
    let (seed, shard, n) = (ctx.seed, ctx.shard, ctx.nshards);
    let n_asts: u64 = if quick { 5_000 } else { 80_000 };
    let all: Vec<Sp> = DELIMS.iter().map(|(a, b)| Sp::new(a, b, "x", "y")).collect();
    let refs: Vec<&Sp> = all.iter().collect();
    let words = words_for(&refs);
    ctx.note("delimiter_pool", json!(DELIMS.len()));
    ctx.note("tag_name_pool", json!(TAG_NAMES.len()));
    ctx.note("text_words", json!(words));
    for i in (shard..n_asts).step_by(n as usize) {
        if ctx.out_of_time() {
            break;
        }
        let mut r = Rng::for_case(seed, 91, i);
        let mut gc = GenCfg::block(*r.pick(&UNITS));
        gc.words = words.clone();
        gc.allow_inline = i % 3 == 0;
        gc.multibyte = true;
        let d = gen_block_doc(&mut r, &gc);
        if count_elems(&d) == 0 {
            continue;
        }
        // all ordered pairs (A, B), A != B; tag names vary with the pair
        let base: Vec<(Rendered, Sp)> = (0..DELIMS.len())
            .map(|di| {
                let sp = spelling(di, (i as usize + di) % TAG_NAMES.len());
                (render(&d, &sp), sp)
            })
            .collect();
        for x in 0..base.len() {
            for y in 0..base.len() {
                if x == y {
                    continue;
                }
                // ordered pairs are symmetric for this oracle; keep x<y plus a sample of x>y with other names
                if x > y && (x + y + i as usize) % 5 != 0 {
                    continue;
                }
                if x > y {
                    let spb = spelling(y, (i as usize + y + 1) % TAG_NAMES.len());
                    let b = render(&d, &spb);
                    judge_pair(ctx, &base[x].0, &base[x].1, &b, &spb, "ast");
                } else {
                    judge_pair(ctx, &base[x].0, &base[x].1, &base[y].0, &base[y].1, "ast");
                }
            }
        }
    }
    ctx.note("rule", json!("distinct (rendering A, rendering B) of one AST with >= 1 element under two different spellings, compared after token-wise canonicalisation"));
}

pub fn replay(ctx: &mut Ctx, v: &Value) -> Result<(), String> {
    let a = Rendered::from_json(v.get("a").ok_or("no a")?).ok_or("bad a")?;
    let b = Rendered::from_json(v.get("b").ok_or("no b")?).ok_or("bad b")?;
    let spa = Sp::from_json(v.get("spa").ok_or("no spa")?).ok_or("bad spa")?;
    let spb = Sp::from_json(v.get("spb").ok_or("no spb")?).ok_or("bad spb")?;
    judge_pair(ctx, &a, &spa, &b, &spb, "replay");
    Ok(())
}
