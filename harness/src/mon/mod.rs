//! One monitor per property. Each `run` drives workloads through the real code and records
//! verdicts in the context; `replay` re-judges one recorded case.

use crate::ctx::Ctx;
use crate::judge::V;
use serde_json::Value;

pub mod cli;
pub mod docs;
pub mod gram;
pub mod hist;
pub mod lines;
pub mod listing;
pub mod marker;
pub mod pair;
pub mod spell;
pub mod time;
pub mod tok;
pub mod total;

pub const PROPS: [&str; 20] = [
    "C01", "C02", "C03", "C04", "C05", "C06", "C07", "C08", "C09", "C10", "C11", "C12", "C13",
    "C14", "C15", "C16", "C17", "C18", "C19", "C20",
];

pub fn run(ctx: &mut Ctx) {
    match ctx.prop.clone().as_str() {
        "C01" => total::run(ctx),
        "C02" | "C03" | "C04" | "C14" => docs::run(ctx),
        "C05" => time::run(ctx),
        "C06" => marker::run(ctx),
        "C07" | "C08" => tok::run(ctx),
        "C09" => gram::run(ctx),
        "C10" => pair::run(ctx),
        "C11" | "C12" | "C13" => lines::run(ctx),
        "C15" | "C16" | "C17" => listing::run(ctx),
        "C18" => spell::run(ctx),
        "C19" => hist::run(ctx),
        "C20" => cli::run(ctx),
        other => ctx.inconclusive(&format!("unknown property {other}")),
    }
}

/// Re-judge one recorded case. Returns Ok(true) if the violation reproduces, Ok(false) if the
/// case now holds, Err for an unusable replay file.
pub fn replay(ctx: &mut Ctx, v: &Value) -> Result<(), String> {
    let kind = v.get("kind").and_then(|k| k.as_str()).unwrap_or("");
    match kind {
        "doc" | "junk" if ctx.prop == "C05" || ctx.prop == "C06" => decision_replay(ctx, v),
        "doc" | "junk" => docs::replay(ctx, v),
        "doc-cli" => docs::replay_cli(ctx, v),
        "line" => lines::replay(ctx, v),
        "list" => listing::replay(ctx, v),
        "list-law" => listing::replay_law(ctx, v),
        "tok" | "tok-e2e" => tok::replay(ctx, v),
        "pair" => pair::replay(ctx, v),
        "tag" | "opaque" => gram::replay(ctx, v),
        "time" | "time-doc" | "time-mono" | "time-cli" => time::replay(ctx, v),
        "marker" | "marker-doc" | "marker-cli" => marker::replay(ctx, v),
        "total" => total::replay(ctx, v),
        "spell" => spell::replay(ctx, v),
        "hist" => hist::replay(ctx, v),
        "cli" => cli::replay(ctx, v),
        other => Err(format!("unknown replay kind {other:?}")),
    }
}

/// Decision events of one document: every element is checked against the reference at the
/// decision point (only disagreements attributed to `prop` count).
pub fn decision_one(ctx: &mut Ctx, prop: &str, rd: &crate::doc::Rendered, sp: &crate::api::Sp, cfg: &crate::api::Cfg, step: u8) {
    if crate::judge::recognition_in_dispute(&rd.text, sp) || !crate::judge::spans_consistent(rd, sp) {
        ctx.skip("tag recognition in dispute / delimiter characters outside tags on this rendering");
        return;
    }
    ctx.eval();
    match crate::api::call_clean(&rd.text, sp, cfg) {
        Err(p) => {
            ctx.panic_site(&p);
            ctx.skip("clean panicked on a G-ast document (C01 territory)");
        }
        Ok((_, ev)) => {
            let (bad, nd) = crate::judge::check_decisions(rd, step, &ev);
            ctx.count_n("events:Decision", nd as u64);
            if let Some(b) = bad.iter().find(|b| b.0 == prop) {
                ctx.violation(
                    "ast-decisions",
                    format!("{} :: {:?}", b.1, crate::util::trunc(&rd.text, 300)),
                    crate::judge::doc_replay("doc", rd, sp, cfg, step),
                );
            } else if nd > 0 {
                ctx.nontrivial(crate::util::hash64(&[rd.text.as_bytes(), &[step]]));
                ctx.count("ast-documents-with-decisions-held");
            }
        }
    }
}

/// Decision events inside full G-ast documents at all four configuration steps.
pub fn decision_stage(ctx: &mut Ctx, prop: &'static str, stream: u64, total: u64, until: f64) {
    let (seed, shard, n) = (ctx.seed, ctx.shard, ctx.nshards);
    for i in (shard..total).step_by(n as usize) {
        if ctx.past(until) {
            break;
        }
        let step = 1 + (i % 4) as u8;
        let cfg = crate::doc::step_cfg(step);
        let (rd, sp) = docs::gen_ast_doc(seed, stream, i, i % 3 == 0, false);
        decision_one(ctx, prop, &rd, &sp, &cfg, step);
    }
}

fn decision_replay(ctx: &mut Ctx, v: &Value) -> Result<(), String> {
    let rd = crate::doc::Rendered::from_json(v.get("doc").ok_or("no doc")?).ok_or("bad doc")?;
    let sp = crate::api::Sp::from_json(v.get("sp").ok_or("no sp")?).ok_or("bad sp")?;
    let cfg = crate::api::Cfg::from_json(v.get("cfg").ok_or("no cfg")?).ok_or("bad cfg")?;
    let step = v.get("step").and_then(|s| s.as_u64()).unwrap_or(2) as u8;
    let prop = ctx.prop.clone();
    decision_one(ctx, &prop, &rd, &sp, &cfg, step);
    Ok(())
}

/// Record a verdict. `h` identifies the input for distinct-nontrivial counting.
pub fn record(ctx: &mut Ctx, v: &V, kind: &str, h: u64, replay: impl FnOnce() -> Value) {
    match v {
        V::Held => {
            ctx.nontrivial(h);
            ctx.count("held");
        }
        V::Violated(m) => ctx.violation(kind, m.clone(), replay()),
        V::Skipped(r) => ctx.skip(r),
        V::Known(kf, m) => {
            if ctx.is_open(kf) {
                ctx.nontrivial(h);
                let m = m.clone();
                ctx.known_finding(kf, || serde_json::json!({"what": m, "replay": replay()}));
            } else {
                ctx.violation(kind, format!("{m} (matches {kf}, which is not listed as open)"), replay());
            }
        }
        V::NA => ctx.count("premise-not-exercised"),
    }
}
