//! One monitor per property. Each `run` drives workloads through the real code and records
//! verdicts in the context; `replay` re-judges one recorded case.

use crate::ctx::Ctx;
use crate::judge::V;
use serde_json::Value;

pub mod cli;
pub mod docs;
pub mod gram;
pub mod hist;
pub mod lines;
pub mod listing;
pub mod marker;
pub mod pair;
pub mod spell;
pub mod time;
pub mod tok;
pub mod total;

pub const PROPS: [&str; 20] = [
    "C01", "C02", "C03", "C04", "C05", "C06", "C07", "C08", "C09", "C10", "C11", "C12", "C13",
    "C14", "C15", "C16", "C17", "C18", "C19", "C20",
];

pub fn run(ctx: &mut Ctx) {
    match ctx.prop.clone().as_str() {
        "C01" => total::run(ctx),
        "C02" | "C03" | "C04" | "C14" => docs::run(ctx),
        "C05" => time::run(ctx),
        "C06" => marker::run(ctx),
        "C07" | "C08" => tok::run(ctx),
        "C09" => gram::run(ctx),
        "C10" => pair::run(ctx),
        "C11" | "C12" | "C13" => lines::run(ctx),
        "C15" | "C16" | "C17" => listing::run(ctx),
        "C18" => spell::run(ctx),
        "C19" => hist::run(ctx),
        "C20" => cli::run(ctx),
        other => ctx.inconclusive(&format!("unknown property {other}")),
    }
}

/// Re-judge one recorded case. Returns Ok(true) if the violation reproduces, Ok(false) if the
/// case now holds, Err for an unusable replay file.
pub fn replay(ctx: &mut Ctx, v: &Value) -> Result<(), String> {
    let kind = v.get("kind").and_then(|k| k.as_str()).unwrap_or("");
    match kind {
        "doc" | "junk" => docs::replay(ctx, v),
        "line" => lines::replay(ctx, v),
        "list" => listing::replay(ctx, v),
        "tok" | "tok-e2e" => tok::replay(ctx, v),
        "pair" => pair::replay(ctx, v),
        "tag" | "opaque" => gram::replay(ctx, v),
        "time" | "time-doc" | "time-mono" => time::replay(ctx, v),
        "marker" | "marker-doc" | "marker-cli" => marker::replay(ctx, v),
        "total" => total::replay(ctx, v),
        "spell" => spell::replay(ctx, v),
        "hist" => hist::replay(ctx, v),
        "cli" => cli::replay(ctx, v),
        other => Err(format!("unknown replay kind {other:?}")),
    }
}

/// Record a verdict. `h` identifies the input for distinct-nontrivial counting.
pub fn record(ctx: &mut Ctx, v: &V, kind: &str, h: u64, replay: impl FnOnce() -> Value) {
    match v {
        V::Held => {
            ctx.nontrivial(h);
            ctx.count("held");
        }
        V::Violated(m) => ctx.violation(kind, m.clone(), replay()),
        V::Skipped(r) => ctx.skip(r),
        V::Known(kf, m) => {
            if ctx.is_open(kf) {
                ctx.nontrivial(h);
                let m = m.clone();
                ctx.known_finding(kf, || serde_json::json!({"what": m, "replay": replay()}));
            } else {
                ctx.violation(kind, format!("{m} (matches {kf}, which is not listed as open)"), replay());
            }
        }
        V::NA => ctx.count("premise-not-exercised"),
    }
}
