//! C11 unwrap-block removes exactly four lines, C12 unwrap dedent, C13 block-style removal
//! keeps lines intact + blank-line arithmetic. Block documents only (every tag alone on its line).

use super::record;
use crate::api::{self, Cfg, Sp};
use crate::ctx::{Ctx, Tier};
use crate::doc::*;
use crate::gen::{self, *};
use crate::judge::{self, doc_replay, line_check, V};
use crate::oracle::*;
use crate::util::*;
use serde_json::{json, Value};

pub fn judge_one(ctx: &mut Ctx, rd: &Rendered, sp: &Sp, cfg: &Cfg, step: u8, gen_name: &str) {
    // the same configuration step read off different clocks (fractional seconds, other zone)
    let cfg = &if gen_name == "replay" { cfg.clone() } else { vary_cfg(cfg, step, hash64(&[rd.text.as_bytes()])) };
    if judge::recognition_in_dispute(&rd.text, sp) {
        ctx.skip("tag recognition in dispute on this rendering (KF-C08)");
        return;
    }
    if ctx.prop == "C12" && rd.text.contains('\r') {
        return judge_cr(ctx, rd, sp, cfg, step, gen_name);
    }
    if (gen_name == "replay" && !judge::spans_subset(rd, sp)) || (gen_name != "replay" && !judge::spans_consistent(rd, sp)) {
        ctx.skip("delimiter characters occur outside tags under this spelling (generator self-check)");
        return;
    }
    // premise: every tag alone on its line
    if !rd.elems.iter().all(|e| tag_alone(&rd.text, e.open) && tag_alone(&rd.text, e.close)) {
        ctx.skip("not a block document (a tag shares its line)");
        return;
    }
    let Some(ext) = extents(rd, step) else {
        ctx.skip("ready unwrap element in non-canonical geometry");
        return;
    };
    // C11 / C12 premise: no tag sits on a wrapper line of an unwrapped block
    if ctx.prop != "C13" {
        let ls = split_lines(&rd.text);
        for u in ready_unwrapped(rd, step) {
            let w1 = u.open_line + 1;
            let w2 = u.close_line - 1;
            if rd.elems.iter().any(|e| {
                // (tags may span several lines)
                let o = line_of(&ls, e.open.0)..=line_of(&ls, e.open.1.saturating_sub(1));
                let c = line_of(&ls, e.close.0)..=line_of(&ls, e.close.1.saturating_sub(1));
                [w1, w2].iter().any(|w| o.contains(w) || c.contains(w))
            }) {
                ctx.skip("a tag sits on a wrapper line (outside the C11/C12 space)");
                return;
            }
        }
    }
    ctx.eval();
    ctx.count(&format!("gen:{gen_name}"));
    let rp = || doc_replay("line", rd, sp, cfg, step);
    let out = match api::call_clean(&rd.text, sp, cfg) {
        Ok((o, ev)) => {
            ctx.count_n("events:observed", ev.len() as u64);
            for a in judge::hook_anomalies(&rd.text, &ev) {
                ctx.count(&format!("hook_anomaly:{}", trunc(&a, 40)));
            }
            o
        }
        Err(p) => {
            ctx.panic_site(&p);
            ctx.violation(gen_name, format!("clean panicked: {} @ {}", trunc(&p.msg, 80), api::short_loc(&p.loc)), rp());
            return;
        }
    };
    let rep = line_check(rd, step, &ext, &out);
    let h = hash64(&[rd.text.as_bytes(), sp.ds.as_bytes()]);
    let with_io = |v: &V| -> V {
        match v {
            V::Violated(m) => V::Violated(format!("{m} :: {:?} => {:?}", trunc(&rd.text, 400), trunc(&out, 400))),
            o => o.clone(),
        }
    };
    match ctx.prop.as_str() {
        "C11" => {
            if rep.n_unwrapped > 0 {
                ctx.count("docs-with-unwrapped-block");
            }
            if rep.n_short_unwrap > 0 {
                ctx.count("docs-with-too-short-unwrap");
            }
            for e in rd.elems.iter().filter(|e| e.ready(step) && e.unwrap) {
                if let UnwrapGeom::Canonical(k) = unwrap_geom(&rd.text, e) {
                    ctx.count(&format!("lines-between:{}", k.min(7)));
                }
            }
            record(ctx, &with_io(&rep.c11), gen_name, h, rp);
        }
        "C12" => {
            ctx.count_n("body-lines-compared", rep.n_body_lines as u64);
            let us = ready_unwrapped(rd, step);
            let nested = us.iter().any(|u| us.iter().any(|o| o.id != u.id && o.open_line < u.open_line && u.close_line < o.close_line));
            if nested && matches!(rep.c12, V::Held) {
                ctx.count("docs-with-nested-unwrap-held");
            }
            if us.iter().any(|u| u.open_line == 0) && matches!(rep.c12, V::Held) {
                ctx.count("docs-with-unwrap-on-line-1-held");
            }
            record(ctx, &with_io(&rep.c12), gen_name, h, rp);
        }
        _ => {
            // C13: two verdicts; report a violation if either fails, count both
            ctx.count_n("formula-blocks-compared", rep.n_blocks_formula as u64);
            for (b, a) in &rep.formula_classes {
                ctx.count(&format!("formula:b={},a={}", (*b).min(5), (*a).min(5)));
                ctx.shape(hash64(&[&[*b as u8, *a as u8]]));
            }
            match (&rep.c13a, &rep.c13b) {
                (V::Violated(_), _) | (V::Known(..), _) => record(ctx, &with_io(&rep.c13a), gen_name, h, rp),
                (_, V::Violated(_)) => record(ctx, &with_io(&rep.c13b), gen_name, h, rp),
                (V::Held, _) => record(ctx, &V::Held, gen_name, h, rp),
                (a, _) => record(ctx, a, gen_name, h, rp),
            }
        }
    }
    if ctx.sample_due() {
        ctx.sample(|| json!({"generator": gen_name, "input": trunc(&rd.text, 500), "output": trunc(&out, 500), "ready_extents": ext}));
    }
}

/// C12 on documents with carriage returns (CRLF / mixed line ends): "only spaces and tabs are ever
/// consumed" from the inner lines of an unwrapped block. The line-by-line dedent oracle does not
/// apply (a '\r' makes tag lines non-blank), so the verdict is the byte alignment of the output
/// with the input minus the ready extents: the first byte that disappeared and is not a space,
/// tab or line break is attributed to C12 iff it lies in the body of an unwrapped block.
fn judge_cr(ctx: &mut Ctx, rd: &Rendered, sp: &Sp, cfg: &Cfg, step: u8, gen_name: &str) {
    if (gen_name == "replay" && !judge::spans_subset(rd, sp)) || (gen_name != "replay" && !judge::spans_consistent(rd, sp)) {
        ctx.skip("delimiter characters occur outside tags under this spelling (generator self-check)");
        return;
    }
    let Some(ext) = extents(rd, step) else {
        ctx.skip("ready unwrap element in non-canonical geometry");
        return;
    };
    let bodies = unwrapped_bodies(rd, step);
    if bodies.is_empty() {
        ctx.skip("no unwrapped block (CR document)");
        return;
    }
    ctx.before_exec(|| doc_replay("line", rd, sp, cfg, step));
    ctx.eval();
    ctx.count(&format!("gen:{gen_name}"));
    let rp = || doc_replay("line", rd, sp, cfg, step);
    let out = match api::call_clean(&rd.text, sp, cfg) {
        Ok((o, _)) => o,
        Err(p) => {
            ctx.panic_site(&p);
            ctx.violation(gen_name, format!("clean panicked: {} @ {}", trunc(&p.msg, 80), api::short_loc(&p.loc)), rp());
            return;
        }
    };
    let tb = rd.text.as_bytes();
    let ob = out.as_bytes();
    let mut j = 0usize;
    let mut cur = 0usize;
    let mut verdict = V::Held;
    let mut cr_on_inner = 0u64;
    'outer: for (a, b) in ext.iter().cloned().chain(std::iter::once((tb.len(), tb.len()))) {
        for pos in cur..a {
            let c = tb[pos];
            let in_body = bodies.iter().any(|(s, e)| *s <= pos && pos < *e);
            if c == b'\r' && in_body {
                cr_on_inner += 1;
            }
            if j < ob.len() && ob[j] == c {
                j += 1;
                continue;
            }
            if c == b' ' || c == b'\t' || c == b'\n' {
                continue;
            }
            verdict = if in_body {
                V::Violated(format!(
                    "byte {:?} at offset {} on an inner line of an unwrapped block was consumed (only spaces and tabs may be): {:?} => {:?}",
                    c as char,
                    pos,
                    trunc(&rd.text, 300),
                    trunc(&out, 300)
                ))
            } else {
                V::Skipped("non-blank byte lost outside the unwrapped bodies (C02 territory)")
            };
            break 'outer;
        }
        cur = b;
    }
    if matches!(verdict, V::Held) && j < ob.len() {
        verdict = V::Skipped("output is not the input with byte ranges taken out (C02 territory)");
    }
    if matches!(verdict, V::Held) {
        ctx.count_n("cr-bytes-on-inner-lines-preserved", cr_on_inner);
        if cr_on_inner == 0 {
            verdict = V::NA;
        }
    }
    let h = hash64(&[rd.text.as_bytes(), sp.ds.as_bytes(), sp.de.as_bytes()]);
    if matches!(verdict, V::Held) && ctx.sample_due() {
        ctx.sample(|| json!({"generator": gen_name, "input": trunc(&rd.text, 500), "output": trunc(&out, 500), "ready_extents": ext}));
    }
    record(ctx, &verdict, gen_name, h, rp);
}

pub fn run(ctx: &mut Ctx) {
    let quick = ctx.tier == Tier::Quick;
    ctx.set_budget_secs(if quick { 22 } else { 240 });
    let (seed, shard, n) = (ctx.seed, ctx.shard, ctx.nshards);
    let cfg = step_cfg(STEP);
    let scale: u64 = if quick { 10 } else { 120 };
    let is13 = ctx.prop == "C13";
    if is13 {
        // ---- G-seam, exhaustive, three indentation units, two spellings
        let words = WORDS.to_vec();
        let sps = [default_sp(), Sp::new("<!-- <", "> -->", "tl", "m")];
        for (ui, unit) in UNITS.iter().enumerate() {
            for (si, sp) in sps.iter().enumerate() {
                // quick tier: every unit once, split over the two spellings
                if quick && (ui % 2 != si) {
                    continue;
                }
                for rank in (shard..SeamParams::count()).step_by(n as usize) {
                    if ctx.past(0.6) {
                        ctx.count("seam-cut-short");
                        break;
                    }
                    let p = SeamParams::from_rank(rank, true);
                    let d = seam_doc(&p, unit, &words);
                    let rd = render(&d, sp);
                    judge_one(ctx, &rd, sp, &cfg, STEP, "seam");
                }
            }
        }
        ctx.note("seam_layouts_per_pass", json!(SeamParams::count()));
        // ---- seam layouts outside the exhaustive box (b, a up to 12, indent up to 6 units, wide units)
        let total = 20_000 * scale;
        for i in (shard..total).step_by(n as usize) {
            if ctx.past(0.68) {
                break;
            }
            let mut r = Rng::for_case(seed, 74, i);
            let p = seam_params_wide(&mut r, true);
            let unit = if i % 4 == 0 { *r.pick(&WIDE_UNITS) } else { *r.pick(&UNITS) };
            let sp = default_sp();
            // neighbour lines now and then consist of characters that look like blanks but are not
            let mut words: Vec<&'static str> = WORDS.to_vec();
            words.extend(["\u{a0}", "\x0c", "\u{3000}", "\x0b \u{a0}", "\u{200b}"]);
            r.shuffle(&mut words);
            let d = seam_doc(&p, unit, &words);
            let rd = render(&d, &sp);
            judge_one(ctx, &rd, &sp, &cfg, STEP, "seam-wide");
        }
        // ---- equal-shape documents back to back (every ordered pair): state kept between calls
        if shard < 4 {
            let docs = equal_shape_docs();
            let sp = short_sp();
            let rds: Vec<Rendered> = docs.iter().map(|d| render(d, &sp)).collect();
            for i in (shard as usize..rds.len()).step_by(4) {
                for j in 0..rds.len() {
                    judge_one(ctx, &rds[i], &sp, &cfg, STEP, "equal-shape-pairs");
                    judge_one(ctx, &rds[j], &sp, &cfg, STEP, "equal-shape-pairs");
                }
            }
        }
        // ---- big block documents without unwrap-blocks
        let total = 40 * scale;
        for i in (shard..total).step_by(n as usize) {
            if ctx.past(0.74) {
                break;
            }
            let mut r = Rng::for_case(seed, 75, i);
            let sp = default_sp();
            let d = gen_big_doc(&mut r, &sp, false, false);
            let rd = render(&d, &sp);
            judge_one(ctx, &rd, &sp, &cfg, STEP, "ast-big");
        }
        // ---- bounded-exhaustive line sequences without unwrap-blocks
        super::docs::lineseq_stage(ctx, if quick { 6 } else { 8 }, 0.8, false, |ctx, rd, sp| {
            judge_one(ctx, rd, sp, &step_cfg(STEP), STEP, "lineseq");
        });
        // ---- G-ast default-strategy block documents
        let total = 80_000 * scale;
        for i in (shard..total).step_by(n as usize) {
            if ctx.out_of_time() {
                break;
            }
            let mut r = Rng::for_case(seed, 71, i);
            let sp = if i % 3 == 0 { default_sp() } else { spelling((i / 3) as usize, (i / 45) as usize) };
            let mut gc = GenCfg::block(*r.pick(&UNITS));
            gc.allow_unwrap = false;
            gc.l1_indent = true;
            gc.words = gen::words_for(&[&sp]);
            gc.max_items = 10;
            let d = gen_block_doc(&mut r, &gc);
            let rd = render(&d, &sp);
            judge_one(ctx, &rd, &sp, &cfg, STEP, "ast-block");
        }
        ctx.note("rule", json!("distinct block documents with >= 1 ready default-strategy element whose surviving lines were compared byte-for-byte (and blank-line formula where its premise holds)"));
        return;
    }
    // ---- C11 / C12: G-unwrap
    let reps = if quick { 100 } else { 1500 };
    for rank in (shard..UnwrapParams::count() * reps).step_by(n as usize) {
        if ctx.past(0.6) {
            ctx.count("unwrap-cut-short");
            break;
        }
        let p = UnwrapParams::from_rank(rank % UnwrapParams::count());
        let mut r = Rng::for_case(seed, 72, rank);
        let sp = match rank % 3 {
            0 => default_sp(),
            1 => short_sp(),
            _ => Sp::new("«", "»", "期限", "印"),
        };
        let depth = 1 + (rank / UnwrapParams::count()) as usize % 3;
        let mut d = unwrap_doc(&p, &mut r, depth, true);
        // now and then the file starts with a byte-order mark / NUL (in front of the head line;
        // in front of a tag on line 1 it makes the tag share its line, which the premise rejects)
        if (rank / UnwrapParams::count()) % 8 == 3 {
            d.insert(0, text(if rank % 2 == 0 { "\u{feff}" } else { "\u{0}" }));
        }
        let rd = render(&d, &sp);
        judge_one(ctx, &rd, &sp, &cfg, STEP, "unwrap-layouts");
    }
    ctx.note("unwrap_layout_skeletons", json!(UnwrapParams::count()));
    // ---- the same layouts with CRLF / mixed line ends (C12: nothing but spaces and tabs is consumed)
    if ctx.prop == "C12" {
        let total = UnwrapParams::count() * if quick { 4 } else { 60 };
        for rank in (shard..total).step_by(n as usize) {
            if ctx.past(0.66) {
                break;
            }
            let p = UnwrapParams::from_rank(rank % UnwrapParams::count());
            let mut r = Rng::for_case(seed, 77, rank);
            let sp = if rank % 2 == 0 { default_sp() } else { short_sp() };
            let depth = 1 + (rank / UnwrapParams::count()) as usize % 3;
            let mut d = unwrap_doc(&p, &mut r, depth, true);
            super::docs::crlf_pieces(&mut d, &mut r, (rank % 2) as usize);
            let rd = render(&d, &sp);
            judge_one(ctx, &rd, &sp, &cfg, STEP, "unwrap-layouts-crlf");
        }
    }
    // ---- big documents: wide indentation, long bodies, deep nesting
    let total = 50 * scale;
    for i in (shard..total).step_by(n as usize) {
        if ctx.past(0.7) {
            break;
        }
        let mut r = Rng::for_case(seed, 76, i);
        let sp = default_sp();
        let mut d = gen_big_doc(&mut r, &sp, false, true);
        demote_default_outside_unwrap(&mut d, false);
        let rd = render(&d, &sp);
        judge_one(ctx, &rd, &sp, &cfg, STEP, "ast-big");
    }
    // ---- bounded-exhaustive line sequences (unwrap-blocks with every kind of line around / inside)
    super::docs::lineseq_stage(ctx, if quick { 6 } else { 8 }, 0.8, true, |ctx, rd, sp| {
        judge_one(ctx, rd, sp, &step_cfg(STEP), STEP, "lineseq");
    });
    // ---- G-ast with unwrap blocks; default-strategy elements only inside unwrap bodies
    let total = 80_000 * scale;
    for i in (shard..total).step_by(n as usize) {
        if ctx.out_of_time() {
            break;
        }
        let mut r = Rng::for_case(seed, 73, i);
        let sp = if i % 3 == 0 { default_sp() } else { spelling((i / 3) as usize, (i / 45) as usize) };
        let mut gc = GenCfg::block(*r.pick(&UNITS));
        gc.words = gen::words_for(&[&sp]);
        gc.l1_indent = true;
        gc.odd_wrappers = r.chance(1, 3);
        gc.max_depth = 4;
        let mut d = gen_block_doc(&mut r, &gc);
        demote_default_outside_unwrap(&mut d, false);
        let rd = render(&d, &sp);
        judge_one(ctx, &rd, &sp, &cfg, STEP, "ast-unwrap");
    }
    let rule = if ctx.prop == "C11" {
        "distinct block documents with >= 1 ready unwrap-block (unwrappable or too short) whose line sequence / verbatim test was decided"
    } else {
        "distinct block documents with >= 1 surviving inner line of an unwrapped block whose indentation was compared with the reference dedent"
    };
    ctx.note("rule", json!(rule));
}

pub fn replay(ctx: &mut Ctx, v: &Value) -> Result<(), String> {
    let rd = Rendered::from_json(v.get("doc").ok_or("no doc")?).ok_or("bad doc")?;
    let sp = Sp::from_json(v.get("sp").ok_or("no sp")?).ok_or("bad sp")?;
    let cfg = Cfg::from_json(v.get("cfg").ok_or("no cfg")?).ok_or("bad cfg")?;
    let step = v.get("step").and_then(|s| s.as_u64()).unwrap_or(STEP as u64) as u8;
    judge_one(ctx, &rd, &sp, &cfg, step, "replay");
    Ok(())
}
