//! C01 totality: clean, list and list_all (pretty and JSON) never panic / abort and return
//! valid UTF-8, for every source, delimiter pair and configuration.

use crate::api::{self, Cfg, Entry, Sp, ENTRIES};
use crate::ctx::{Ctx, Tier};
use crate::doc::*;
use crate::gen::*;
use crate::util::*;
use serde_json::{json, Value};

fn replay_of(text: &str, sp: &Sp, cfg: &Cfg, entry: Entry) -> Value {
    json!({"kind": "total", "text": text, "sp": sp.json(), "cfg": cfg.json(), "entry": entry.name()})
}

/// Run all five entry points on one input.
pub fn judge_input(ctx: &mut Ctx, text: &str, sp: &Sp, cfg: &Cfg, gen_name: &str) {
    ctx.before_exec(|| replay_of(text, sp, cfg, Entry::Clean));
    let mut ok = true;
    for e in ENTRIES {
        ctx.eval();
        match api::call(e, text, sp, cfg) {
            Ok((out, ev)) => {
                // String guarantees UTF-8; re-check explicitly (cheap) so that the evidence can say so
                if std::str::from_utf8(out.as_bytes()).is_err() {
                    ctx.violation(gen_name, "output is not valid UTF-8".into(), replay_of(text, sp, cfg, e));
                    ok = false;
                }
                ctx.count_n("events:observed", ev.len() as u64);
            }
            Err(p) => {
                ok = false;
                ctx.panic_site(&p);
                ctx.violation(
                    &format!("{gen_name}:{}", e.name()),
                    format!("{} panicked: {} @ {} on {:?} (delimiters {:?} {:?})", e.name(), trunc(&p.msg, 100), api::short_loc(&p.loc), trunc(text, 200), sp.ds, sp.de),
                    replay_of(text, sp, cfg, e),
                );
            }
        }
    }
    if ok {
        ctx.nontrivial(hash64(&[text.as_bytes(), sp.ds.as_bytes(), sp.de.as_bytes(), cfg.now.as_bytes(), cfg.offset.as_bytes()]));
        ctx.count(&format!("gen:{gen_name}"));
        if text.chars().last().map(|c| c.len_utf8() > 1).unwrap_or(false) {
            ctx.count("inputs-ending-in-multibyte");
        }
        if ctx.sample_due() {
            ctx.sample(|| json!({"generator": gen_name, "input": trunc(text, 300), "delimiters": [sp.ds, sp.de], "now": cfg.now, "offset": cfg.offset, "targets": cfg.targets, "entries": "clean, list, list-json, list-all, list-all-json all returned"}));
        }
    }
}

pub fn config_pool() -> Vec<Cfg> {
    let mut v = vec![];
    for now in ["2020-06-15T12:00:00+00:00", "1970-01-01T00:00:00+00:00", "9999-12-31T23:59:59+14:00", "0001-01-01T00:00:00-12:00"] {
        for off in ["+00:00", "-1200", "+14:00", "", "garbage", "+99:99", "日本", "-00:01", "+00:01", "-23:59", "+2359"] {
            if now.parse::<chrono::DateTime<chrono::Local>>().is_err() {
                continue;
            }
            for targets in [&[][..], &["feat-a"][..], &["", "feat-a", "zzz"][..]] {
                v.push(Cfg::new(now, off, targets));
            }
        }
    }
    v
}

pub fn run(ctx: &mut Ctx) {
    let quick = ctx.tier == Tier::Quick;
    ctx.set_budget_secs(if quick { 25 } else { 420 });
    let (seed, shard, n) = (ctx.seed, ctx.shard, ctx.nshards);
    let cfg = step_cfg(STEP);
    let cfgs = config_pool();
    // ---- pipeline atoms, exhaustive, four spellings
    let sps = [short_sp(), default_sp(), Sp::new("«", "»", "期限", "印"), Sp::new("|", "|", "tl", "m"), Sp::new("{% ", " %}", "tl", "m")];
    let mut bounds = vec![];
    for (k, sp) in sps.iter().enumerate() {
        let atoms = pipeline_atoms(sp);
        let maxlen = match (quick, k) {
            (true, 0) => 5,
            (true, _) => 4,
            (false, 0) => 6,
            (false, _) => 5,
        };
        bounds.push(json!({"delimiters": [sp.ds, sp.de], "alphabet": atoms.len(), "max_atoms": maxlen}));
        let frac = 0.35 * (k as f64 + 1.0) / sps.len() as f64;
        for len in 0..=maxlen {
            let mut stop = false;
            enumerate_sharded(atoms.len(), len, shard, n, |idx| {
                if stop {
                    return;
                }
                let s: String = idx.iter().map(|i| atoms[*i].as_str()).collect();
                judge_input(ctx, &s, sp, &cfg, "pipeline-atoms");
                if ctx.evaluations % 2048 < 5 && ctx.past(frac) {
                    stop = true;
                    ctx.count("pipeline-atoms-cut-short");
                }
            });
        }
    }
    ctx.note("exhaustive_bounds", json!(bounds));
    // ---- tokenizer atoms (delimiter fragments) through the whole pipeline, all spellings
    for (di, (ds, de)) in DELIMS.iter().enumerate() {
        let sp = Sp::new(ds, de, "tl", "m");
        let atoms = tokenizer_atoms(ds, de);
        let maxlen = if quick { 3 } else { 4 };
        let frac = 0.35 + 0.15 * (di as f64 + 1.0) / DELIMS.len() as f64;
        for len in 0..=maxlen {
            let mut stop = false;
            enumerate_sharded(atoms.len(), len, shard, n, |idx| {
                if stop {
                    return;
                }
                let s: String = idx.iter().map(|i| atoms[*i].as_str()).collect();
                judge_input(ctx, &s, &sp, &cfg, "tokenizer-atoms");
                if ctx.evaluations % 2048 < 5 && ctx.past(frac) {
                    stop = true;
                }
            });
        }
    }
    // ---- hostile random sequences (4..22 atoms), biased towards tags on wrapper lines
    let total: u64 = if quick { 1_500_000 } else { 30_000_000 };
    for i in (shard..total).step_by(n as usize) {
        if ctx.past(0.72) {
            break;
        }
        let mut r = Rng::for_case(seed, 11, i);
        let sp = if i % 3 == 0 { short_sp() } else { spelling(r.below(DELIMS.len()), r.below(TAG_NAMES.len())) };
        let atoms = hostile_atoms(&sp);
        let len = 4 + r.below(19);
        let s: String = (0..len).map(|_| r.pick(&atoms).as_str()).collect();
        let c = if i % 7 == 0 { &cfgs[r.below(cfgs.len())] } else { &cfg };
        judge_input(ctx, &s, &sp, c, "hostile-random");
    }
    // ---- AST documents, mutated, truncated at every char boundary
    let total: u64 = if quick { 30_000 } else { 400_000 };
    for i in (shard..total).step_by(n as usize) {
        if ctx.past(0.92) {
            break;
        }
        let (rd, sp) = super::docs::gen_ast_doc(seed, 12, i, i % 2 == 0, false);
        let mut r = Rng::for_case(seed, 13, i);
        judge_input(ctx, &rd.text, &sp, &cfg, "ast");
        let mut s = rd.text.clone();
        for _ in 0..3 {
            s = mutate(&s, &sp, &mut r);
            judge_input(ctx, &s, &sp, &cfgs[r.below(cfgs.len())], "ast-mutated");
        }
        // truncations: all char boundaries in the thorough tier, a sample in the quick tier
        let cs: Vec<(usize, char)> = rd.text.char_indices().collect();
        let stride = if quick { 1 + cs.len() / 12 } else { 1 };
        for (k, (bi, _)) in cs.iter().enumerate() {
            if k % stride != 0 {
                continue;
            }
            judge_input(ctx, &rd.text[..*bi], &sp, &cfg, "ast-truncated");
        }
        // multi-byte tail
        let t = format!("{}{}", rd.text, r.pick(&["あ", "🎈", "é", "»", "🎈⟧"]));
        judge_input(ctx, &t, &sp, &cfg, "ast-multibyte-tail");
    }
    // ---- exotic delimiters and tag-name configurations (totality only): delimiters that are
    // quotes, '=', '/', spaces, line breaks, prefixes of each other; empty / identical / odd tag names
    let exotic: [(&str, &str); 14] = [
        ("\n", "\n"), (" ", " "), ("a", "a"), ("<", "<"), ("<<", "<"), ("<", "<<"), ("'", "\""),
        ("=", "="), ("/", "/"), ("</", ">"), ("<", "/>"), ("  ", "\n"), ("é", "é"), ("🎈", "\t"),
    ];
    let odd_names: [(&str, &str); 6] = [("", ""), ("x", "x"), ("/", "/x"), ("a b", "c"), ("tl", ""), ("=", "'")];
    let total: u64 = if quick { 160_000 } else { 3_000_000 };
    for i in (shard..total).step_by(n as usize) {
        if ctx.past(0.95) {
            break;
        }
        let mut r = Rng::for_case(seed, 14, i);
        let (ds, de) = exotic[(i as usize / 16) % exotic.len()];
        let (tl, mk) = if r.chance(1, 2) { *r.pick(&odd_names) } else { ("tl", "m") };
        let sp = Sp::new(ds, de, tl, mk);
        let mut atoms = tokenizer_atoms(ds, de);
        for name in [tl, mk, "z"] {
            atoms.push(format!("{ds}{name} name='feat-a' to='2000-01-01 00:00:00'{de}"));
            atoms.push(format!("{ds}{name} unwrap-block name=\"feat-a\"{de}"));
            atoms.push(format!("{ds}/{name}{de}"));
        }
        let len = 1 + r.below(10);
        let s: String = (0..len).map(|_| r.pick(&atoms).as_str()).collect();
        judge_input(ctx, &s, &sp, &cfg, "exotic-delimiters");
    }
    // ---- wrapper-line child templates (exhaustive), three spellings incl. multi-byte delimiters
    for sp in [short_sp(), Sp::new("«", "»", "t.l", "r+m"), default_sp()] {
        let mut rank = shard;
        while let Some(s) = wrapper_child_template(rank, &sp) {
            judge_input(ctx, &s, &sp, &cfg, "wrapper-child-templates");
            rank += n;
        }
    }
    // ---- a region beyond line 10 000 000 (eight-digit line numbers in the listings)
    if shard == 1 % n {
        let s = format!("{}<m name='feat-a'>\nx\n</m>\n", "\n".repeat(10_000_001));
        judge_input(ctx, &s, &short_sp(), &cfg, "ten-million-lines");
    }
    // ---- deep nesting
    if shard as usize % 4 == 0 {
        let depths: &[usize] = if quick { &[50, 400, 2000] } else { &[50, 400, 2000, 5000] };
        for d in depths {
            for (open, close) in [("<m name='feat-a'>", "</m>"), ("<m name='zzz' unwrap-block>\n", "\n</m>"), ("<tl to='2000-01-01 00:00:00' unwrap-block>\nx\n", "\ny\n</tl>")] {
                let s = format!("{}{}{}", open.repeat(*d), "core", close.repeat(*d));
                judge_input(ctx, &s, &short_sp(), &cfg, "deep-nesting");
                let s2 = format!("{}core", open.repeat(*d)); // unclosed
                judge_input(ctx, &s2, &short_sp(), &cfg, "deep-nesting");
            }
        }
        ctx.note("max_nesting_depth", json!(depths.iter().max()));
    }
    // ---- all configurations on a fixed set of tricky documents
    let tricky = [
        "< >",
        "あ",
        "<m name='feat-a' unwrap-block>\n<m name='feat-a'>\n</m>\n</m>",
        "<tl to='2000-01-01 00:00:00'>x</tl>あ",
        "\n<m name='feat-a'>\n</m>",
        "<tl to>x</tl>",
        "<tl to=''>x</tl>\n",
        // expiry values at and beyond the edges of what a date library can represent
        "<tl to='9999-12-31 23:59:59'>x</tl>\n<tl to='0000-01-01 00:00:00'>y</tl>\n<tl to='0001-01-01 00:00:00'>z</tl>",
        "<tl to='+262142-12-31 23:59:59'>x</tl>\n<tl to='-262143-01-01 00:00:00'>y</tl>",
        "<tl to='262142-12-31 23:59:59'>x</tl>\n<tl to='+262143-01-01 00:00:00'>y</tl>\n<tl to='-262144-12-31 23:59:59'>z</tl>",
        "<tl to='+10000-01-01 00:00:00'>x</tl>\n<tl to='99999-12-31 23:59:60'>y</tl>\n<tl to='-0001-02-29 24:00:00'>z</tl>",
        "<tl to='2016-12-31 23:59:60'>x</tl>\n<tl to='1970-01-01 00:00:00'>y</tl>\n<tl to='1969-12-31 23:59:59'>z</tl>",
    ];
    for (k, c) in cfgs.iter().enumerate() {
        if k as u64 % n != shard {
            continue;
        }
        for t in tricky {
            judge_input(ctx, t, &short_sp(), c, "config-pool");
        }
    }
    ctx.note("rule", json!("distinct (source, delimiters, configuration) on which all five entry points returned normally with valid UTF-8"));
}

pub fn replay(ctx: &mut Ctx, v: &Value) -> Result<(), String> {
    let text = v.get("text").and_then(|x| x.as_str()).ok_or("no text")?;
    let sp = Sp::from_json(v.get("sp").ok_or("no sp")?).ok_or("bad sp")?;
    let cfg = Cfg::from_json(v.get("cfg").ok_or("no cfg")?).ok_or("bad cfg")?;
    judge_input(ctx, text, &sp, &cfg, "replay");
    Ok(())
}
