//! C09 tag grammar: name and attributes round-trip; quoted values are opaque.

use crate::api::{self, call_parse_single_tag, Sp};
use crate::ctx::{Ctx, Tier};
use crate::doc::*;
use crate::util::*;
use serde_json::{json, Value};

const NAMES: [&str; 7] = ["time-limited", "m", "/m", "タグ", "a.b", "*", "removal-marker"];
const ANAMES: [&str; 9] = ["to", "name", "skip", "unwrap-block", "c", "*", "x-y", "属性", "k2"];
const VALUES: [&str; 25] = [
    "",
    "v",
    "2020-01-01 00:00:00",
    "a b",
    "a=b",
    "it's",
    "say \"hi\"",
    "line1\nline2",
    "skip unwrap-block",
    "<",
    "x<y",
    " lead",
    "trail ",
    "日本語",
    "to='1999-01-01 00:00:00'",
    "name=\"feat-a\" skip",
    "\n",
    "=",
    "C:\\dir\\",
    "a\\",
    " ",
    "=x",
    "\u{e9}",
    "x'",
    "\"",
];
const SEPS: [&str; 5] = [" ", "  ", "\n", "\n  ", " \n * "];
const EQS: [&str; 4] = ["=", " =", "= ", " = "];
const SPELLS: [(&str, &str); 5] = [("<", ">"), ("<!-- <", "> -->"), ("/* <", "> */"), ("«", "»"), ("|", "|")];

#[derive(Clone, Debug)]
struct Attr {
    name: &'static str,
    /// None = bare; Some((quote, value, eq form))
    val: Option<(char, String, &'static str)>,
    sep: &'static str,
}

fn build(name: &str, pad_l: bool, pad_r: bool, attrs: &[Attr]) -> (String, Vec<(String, Option<String>)>) {
    let mut body = String::new();
    let mut want: Vec<(String, Option<String>)> = vec![];
    if pad_l {
        body.push(' ');
    }
    body.push_str(name);
    for a in attrs {
        body.push_str(a.sep);
        // the README-style separator ` \n * ` contains a bare word `*`
        if a.sep.contains('*') {
            want.push(("*".to_string(), None));
        }
        body.push_str(a.name);
        match &a.val {
            None => want.push((a.name.to_string(), None)),
            Some((q, v, eq)) => {
                body.push_str(eq);
                body.push(*q);
                body.push_str(v);
                body.push(*q);
                want.push((a.name.to_string(), Some(v.clone())));
            }
        }
    }
    if pad_r {
        body.push(' ');
    }
    (body, want)
}

fn judge_tag(ctx: &mut Ctx, body: &str, ds: &str, de: &str, name: &str, want: &[(String, Option<String>)], gen_name: &str) {
    // keep the tag a single token: the body must not contain the end delimiter, and with
    // identical delimiters not the start delimiter either
    if body.contains(de) || (ds == de && body.contains(ds)) {
        ctx.skip("value contains the end delimiter (tag would end early)");
        return;
    }
    // self-check of the generator against the reference grammar
    match crate::refmodel::rtag(body) {
        Some((n, a)) if n == name && a == want => {}
        _ => {
            ctx.skip("generator/reference grammar disagree (harness self-check)");
            return;
        }
    }
    let src = format!("{ds}{body}{de}");
    if crate::refmodel::rscan(&src, ds, de) != vec![(0, src.len(), true)]
        || crate::refmodel::rautomaton(&src, ds, de) != vec![(0, src.len(), true)]
    {
        ctx.skip("tag is not a single token by the reference scan / recognition in dispute");
        return;
    }
    ctx.eval();
    let rp = || json!({"kind": "tag", "body": body, "ds": ds, "de": de, "name": name, "want": want});
    let h = hash64(&[src.as_bytes(), ds.as_bytes()]);
    match call_parse_single_tag(&src, ds, de) {
        Err(p) => {
            ctx.panic_site(&p);
            ctx.violation(gen_name, format!("tag parser panicked: {} @ {}", trunc(&p.msg, 80), api::short_loc(&p.loc)), rp());
        }
        Ok(Err(m)) => ctx.skip(if m.contains("tokens") { "tokenizer split the tag (C07/C08 territory)" } else { "single token is text" }),
        Ok(Ok(None)) => ctx.violation(gen_name, format!("well-formed tag rejected: {:?}", trunc(&src, 200)), rp()),
        Ok(Ok(Some((n, attrs)))) => {
            if n != name || attrs != want {
                ctx.violation(
                    gen_name,
                    format!("tag {:?} parsed as name {:?} attrs {:?}, expected name {:?} attrs {:?}", trunc(&src, 200), n, attrs, name, want),
                    rp(),
                );
            } else {
                if !want.is_empty() {
                    ctx.nontrivial(h);
                }
                ctx.count(&format!("attrs:{}", want.len().min(5)));
                if body.contains('\n') {
                    ctx.count("tags-with-line-break");
                }
                if ctx.sample_due() {
                    ctx.sample(|| json!({"generator": gen_name, "tag": src, "name": n, "attributes": attrs}));
                }
            }
        }
    }
}

// ---- opaque-value metamorphic check through clean

const OPAQUE: [&str; 18] = [
    "false",
    "no",
    "0",
    "plain note",
    "skip",
    " skip ",
    "unwrap-block",
    "skip unwrap-block",
    "to=",
    "a = b",
    "remove after: 2999-01-01 00:00:00",
    "x\nskip\ny",
    "\n * skip\n * ",
    "name=feat-a",
    "/tl",
    "tl",
    "",
    "C:\\legacy\\",
];

fn opaque_one(ctx: &mut Ctx, sp: &Sp, kind_tl: bool, ready: bool, skip: u8, unwrap: u8, val: &str, q: char, pos: usize, sep: &str, gen_name: &str) {
    let other = if q == '"' { '\'' } else { '"' };
    let val = val.replace(q, &other.to_string());
    let mut val = val.replace("{DS}", &sp.ds);
    if val.contains(&sp.de) || (sp.ds == sp.de && val.contains(&sp.ds)) {
        val = val.replace(&sp.de, "_");
    }
    let cond = if kind_tl {
        format!("to={q}{}{q}", if ready { TO_VALUES[0] } else { TO_VALUES[4] })
    } else {
        format!("name={q}{}{q}", if ready { MK_NAMES[0] } else { MK_NEVER[0] })
    };
    let mut attrs: Vec<String> = vec![cond];
    // the two flag attributes: absent (0), bare word (1), or name=value with the opaque value (2):
    // the name decides, whatever the value says
    match skip {
        1 => attrs.push("skip".to_string()),
        2 => attrs.push(format!("skip={q}{val}{q}")),
        _ => {}
    }
    match unwrap {
        1 => attrs.push("unwrap-block".to_string()),
        2 => attrs.push(format!("unwrap-block={q}{val}{q}")),
        _ => {}
    }
    let skip = skip > 0;
    let c = format!("c={q}{val}{q}");
    let pos = pos % (attrs.len() + 1);
    attrs.insert(pos, c);
    let name = if kind_tl { &sp.tl } else { &sp.mk };
    let body = format!("{name}{sep}{}", attrs.join(sep));
    if crate::refmodel::rtag(&body).is_none() {
        ctx.skip("opaque: body outside grammar (harness self-check)");
        return;
    }
    let inner = if unwrap > 0 { "if (x) {\n  keep();\n}" } else { "gone();" };
    let text = format!("before();\n{}{body}{}\n{inner}\n{}/{name}{}\nafter();\n", sp.ds, sp.de, sp.ds, sp.de);
    if crate::judge::recognition_in_dispute(&text, sp) {
        ctx.skip("tag recognition in dispute on this rendering (KF-C08)");
        return;
    }
    let spans = crate::refmodel::rscan(&text, &sp.ds, &sp.de);
    if spans.iter().filter(|s| s.2).count() != 2 {
        ctx.skip("opaque: value changes the textbook tag structure");
        return;
    }
    ctx.eval();
    let cfg = step_cfg(STEP);
    let expect_removed = ready && !skip;
    let rp = || json!({"kind": "opaque", "text": text, "sp": sp.json(), "expect_removed": expect_removed, "unwrap": unwrap > 0});
    match api::call_clean(&text, sp, &cfg) {
        Err(p) => {
            ctx.panic_site(&p);
            ctx.violation(gen_name, format!("clean panicked @ {}", api::short_loc(&p.loc)), rp());
        }
        Ok((out, _)) => {
            let want = if !expect_removed {
                text.clone()
            } else if unwrap > 0 {
                "before();\nkeep();\nafter();\n".to_string()
            } else {
                "before();\nafter();\n".to_string()
            };
            let ok = if expect_removed { nonws(&out) == nonws(&want) } else { out == want };
            if ok {
                ctx.nontrivial(hash_str(&text));
                ctx.count(if expect_removed { "opaque-removed" } else { "opaque-kept" });
            } else {
                ctx.violation(
                    gen_name,
                    format!(
                        "content of a quoted value changed the decision: {:?} => {:?} (expected {})",
                        trunc(&text, 240),
                        trunc(&out, 160),
                        if !expect_removed { "unchanged" } else if unwrap > 0 { "block unwrapped" } else { "element removed" }
                    ),
                    rp(),
                );
            }
        }
    }
}

pub fn run(ctx: &mut Ctx) {
    let quick = ctx.tier == Tier::Quick;
    ctx.set_budget_secs(if quick { 20 } else { 240 });
    let (seed, shard, n) = (ctx.seed, ctx.shard, ctx.nshards);
    // ---- exhaustive: <= 2 attributes over a small pool
    let small_vals = ["", "v", "a b", "a=b", "it's", "l1\nl2", "skip", "<"];
    let small_an = ["to", "skip", "c", "*"];
    let mut rank: u64 = 0;
    let mut all: Vec<Attr> = vec![];
    for an in small_an {
        for sep in SEPS {
            all.push(Attr { name: an, val: None, sep });
            for q in ['"', '\''] {
                for v in small_vals {
                    if v.contains(q) {
                        continue;
                    }
                    for eq in ["=", " = "] {
                        all.push(Attr { name: an, val: Some((q, v.to_string(), eq)), sep });
                    }
                }
            }
        }
    }
    ctx.note("exhaustive_attr_forms", json!(all.len()));
    'ex: for (ds, de) in [("<", ">"), ("/* <", "> */")] {
        for name in ["m", "time-limited"] {
            for pad in 0..4 {
                // 0 attributes
                rank += 1;
                if rank % n == shard {
                    let (b, w) = build(name, pad & 1 == 1, pad & 2 == 2, &[]);
                    judge_tag(ctx, &b, ds, de, name, &w, "exhaustive");
                }
                for a1 in &all {
                    rank += 1;
                    if rank % n == shard {
                        let (b, w) = build(name, pad & 1 == 1, pad & 2 == 2, std::slice::from_ref(a1));
                        judge_tag(ctx, &b, ds, de, name, &w, "exhaustive");
                    }
                    if pad != 0 {
                        continue;
                    }
                    for a2 in &all {
                        rank += 1;
                        if rank % n != shard {
                            continue;
                        }
                        if a1.name == a2.name && a1.name != "*" {
                            continue;
                        }
                        let (b, w) = build(name, false, false, &[a1.clone(), a2.clone()]);
                        judge_tag(ctx, &b, ds, de, name, &w, "exhaustive");
                        if ctx.evaluations % 2048 == 0 && ctx.past(if quick { 0.45 } else { 0.5 }) {
                            ctx.count("exhaustive-cut-short");
                            break 'ex;
                        }
                    }
                }
            }
        }
    }
    // ---- random: 0..4 attributes over the adversarial pool, 5 spellings
    let total: u64 = if quick { 6_000_000 } else { 80_000_000 };
    for i in (shard..total).step_by(n as usize) {
        if ctx.past(0.85) {
            break;
        }
        let mut r = Rng::for_case(seed, 41, i);
        let name = *r.pick(&NAMES);
        let k = r.below(5);
        let mut attrs = vec![];
        for _ in 0..k {
            let an = *r.pick(&ANAMES);
            let sep = *r.pick(&SEPS);
            let val = match r.below(3) {
                0 => None,
                qk => {
                    let q = if qk == 1 { '"' } else { '\'' };
                    let mut v = r.pick(&VALUES).to_string();
                    if v.contains(q) {
                        v = v.replace(q, if q == '"' { "'" } else { "\"" });
                    }
                    Some((q, v, *r.pick(&EQS)))
                }
            };
            attrs.push(Attr { name: an, val, sep });
        }
        let (ds, de) = *r.pick(&SPELLS);
        let (b, w) = build(name, r.chance(1, 3), r.chance(1, 3), &attrs);
        judge_tag(ctx, &b, ds, de, name, &w, "random");
    }
    // ---- opaque values through clean
    let sps = [
        Sp::new("/* <", "> */", "time-limited", "removal-marker"),
        Sp::new("<", ">", "tl", "m"),
        Sp::new("<!-- <", "> -->", "tl", "m"),
    ];
    let mut rank: u64 = 0;
    for sp in &sps {
        for val in OPAQUE.iter().chain(["see {DS}tl{DS}", "{DS}"].iter()) {
            for q in ['"', '\''] {
                for kind_tl in [true, false] {
                    for ready in [true, false] {
                        for (skip, unwrap) in [(0u8, 0u8), (1, 0), (2, 0), (0, 1), (0, 2), (1, 2), (2, 1)] {
                            for pos in 0..3 {
                                for sep in [" ", "\n", "\n * "] {
                                    rank += 1;
                                    if rank % n != shard {
                                        continue;
                                    }
                                    if ctx.out_of_time() {
                                        break;
                                    }
                                    opaque_one(ctx, sp, kind_tl, ready, skip, unwrap, val, q, pos, sep, "opaque");
                                }
                            }
                        }
                    }
                }
            }
        }
    }
    ctx.note("rule", json!("distinct (tag source, delimiters) with >= 1 attribute that round-tripped, plus distinct opaque-value probe documents whose decision matched"));
}

pub fn replay(ctx: &mut Ctx, v: &Value) -> Result<(), String> {
    match v.get("kind").and_then(|k| k.as_str()) {
        Some("tag") => {
            let body = v.get("body").and_then(|x| x.as_str()).ok_or("no body")?;
            let ds = v.get("ds").and_then(|x| x.as_str()).ok_or("no ds")?;
            let de = v.get("de").and_then(|x| x.as_str()).ok_or("no de")?;
            let name = v.get("name").and_then(|x| x.as_str()).ok_or("no name")?;
            let want: Vec<(String, Option<String>)> = v
                .get("want")
                .and_then(|x| x.as_array())
                .ok_or("no want")?
                .iter()
                .filter_map(|p| {
                    let a = p.as_array()?;
                    Some((a.first()?.as_str()?.to_string(), a.get(1)?.as_str().map(|s| s.to_string())))
                })
                .collect();
            judge_tag(ctx, body, ds, de, name, &want, "replay");
            Ok(())
        }
        Some("opaque") => {
            let text = v.get("text").and_then(|x| x.as_str()).ok_or("no text")?;
            let sp = Sp::from_json(v.get("sp").ok_or("no sp")?).ok_or("bad sp")?;
            let expect_removed = v.get("expect_removed").and_then(|x| x.as_bool()).ok_or("no expect")?;
            ctx.eval();
            let cfg = step_cfg(STEP);
            match api::call_clean(text, &sp, &cfg) {
                Err(p) => ctx.violation("replay", format!("clean panicked @ {}", api::short_loc(&p.loc)), v.clone()),
                Ok((out, _)) => {
                    let unwrap = v.get("unwrap").and_then(|x| x.as_bool()).unwrap_or(false);
                    let gone = if unwrap { "before();keep();after();" } else { "before();after();" };
                    let ok = if expect_removed { nonws(&out) == gone } else { out == text };
                    if ok {
                        ctx.nontrivial(hash_str(text));
                    } else {
                        ctx.violation("replay", format!("content of a quoted value changed the decision: {:?} => {:?}", trunc(text, 240), trunc(&out, 160)), v.clone());
                    }
                }
            }
            Ok(())
        }
        _ => Err("bad kind".into()),
    }
}
