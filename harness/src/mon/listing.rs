//! C15 list = what clean deletes (and is pure), C16 rendering + JSON, C17 list_all.

use super::record;
use crate::api::{Cfg, Sp};
use crate::ctx::{Ctx, Tier};
use crate::doc::*;
use crate::gen::{self, *};
use crate::judge::{self, doc_replay, list_check};
use crate::oracle::*;
use crate::util::*;
use serde_json::{json, Value};

/// Is the document inside the C15 space? Returns (wrappers_ok, starts_clean):
/// wrappers_ok  = tags do not sit on unwrap wrapper lines and wrapper lines are non-empty code lines
/// starts_clean = first byte of the file is not a line break
/// C15 / C17 need both; C16 additionally admits files whose first byte is a line break.
pub fn c15_space(rd: &Rendered, step: u8) -> (bool, bool) {
    let t = &rd.text;
    let starts_clean = !t.starts_with('\n');
    let ls = split_lines(t);
    for e in rd.elems.iter().filter(|e| e.unwrap && (e.ready(step) || e.pending(step))) {
        if unwrap_parts(t, e).is_some() {
            let w1 = line_of(&ls, e.open.0) + 1;
            let w2 = line_of(&ls, e.close.0) - 1;
            for w in [w1, w2] {
                let l = &t[ls[w].0..ls[w].1];
                if blank(l) {
                    return (false, starts_clean);
                }
                if rd.elems.iter().any(|x| {
                    let a = line_of(&ls, x.open.0);
                    let b = line_of(&ls, x.open.1.saturating_sub(1));
                    let c = line_of(&ls, x.close.0);
                    let d = line_of(&ls, x.close.1.saturating_sub(1));
                    (a..=b).contains(&w) || (c..=d).contains(&w)
                }) {
                    return (false, starts_clean);
                }
            }
        }
    }
    (true, starts_clean)
}

pub fn judge_one(ctx: &mut Ctx, rd: &Rendered, sp: &Sp, cfg: &Cfg, step: u8, gen_name: &str) {
    // the same configuration step read off different clocks (fractional seconds, other zone)
    let cfg = &if gen_name == "replay" { cfg.clone() } else { vary_cfg(cfg, step, hash64(&[rd.text.as_bytes()])) };
    if judge::recognition_in_dispute(&rd.text, sp) {
        ctx.skip("tag recognition in dispute on this rendering (KF-C08)");
        return;
    }
    let from_gate = matches!(gen_name, "ast-crlf" | "replay" | "wrapper-child+tail" | "junk-atoms" | "mutated");
    if (from_gate && !judge::spans_subset(rd, sp)) || (!from_gate && !judge::spans_consistent(rd, sp)) {
        ctx.skip("delimiter characters occur outside tags under this spelling (generator self-check)");
        return;
    }
    let has_cr = rd.text.contains('\r');
    if has_cr {
        ctx.count("documents-with-CR (line ranges judged, rendering of the lines not)");
    }
    let (wrappers_ok, starts_clean) = c15_space(rd, step);
    let space = wrappers_ok && starts_clean;
    if !wrappers_ok {
        if ctx.prop == "C17" {
            // the geometry model does not apply, the law over the reported regions does
            law_only(ctx, rd, sp, cfg, step, gen_name);
            return;
        }
        ctx.skip("outside the C15 space (tag on / blank unwrap wrapper line)");
        return;
    }
    if ctx.prop != "C16" && !space {
        if ctx.prop == "C17" {
            law_only(ctx, rd, sp, cfg, step, gen_name);
            return;
        }
        ctx.skip("outside the C15 space (file starts with a line break)");
        return;
    }
    ctx.before_exec(|| doc_replay("list", rd, sp, cfg, step));
    ctx.eval();
    ctx.count(&format!("gen:{gen_name}"));
    let rep = list_check(rd, sp, cfg, step, space, has_cr);
    if let Some((_, p)) = &rep.panic {
        ctx.panic_site(p);
    }
    ctx.count_n("events:observed", rep.events_seen as u64);
    ctx.count_n("items:ready", rep.n_ready_items as u64);
    ctx.count_n("items:pending", rep.n_pending_items as u64);
    ctx.count_n("marker-lines-compared", rep.marker_lines_compared as u64);
    let v = match ctx.prop.as_str() {
        "C15" => rep.c15.clone(),
        "C16" => rep.c16.clone(),
        _ => {
            // second, independent verdict: the law over the regions reported at the hooks
            let (law, seen, listed) = judge::c17_law(&rd.text, sp, cfg);
            ctx.count_n("law:pending-regions-decided", seen as u64);
            ctx.count_n("law:pending-regions-listed", listed as u64);
            match (&rep.c17, law) {
                (judge::V::Violated(_), _) => rep.c17.clone(),
                (_, judge::V::Violated(m)) => judge::V::Violated(format!("[law over reported regions] {m}")),
                _ => rep.c17.clone(),
            }
        }
    };
    let v = match v {
        judge::V::Violated(m) => judge::V::Violated(format!("{m} :: {:?}", trunc(&rd.text, 400))),
        o => o,
    };
    let h = hash64(&[rd.text.as_bytes(), sp.ds.as_bytes()]);
    if matches!(v, judge::V::Held) {
        ctx.shape(super::docs::shape_of(rd, step));
        if ctx.sample_due() {
            ctx.sample(|| json!({"generator": gen_name, "input": trunc(&rd.text, 500), "ready_items": rep.n_ready_items, "pending_items": rep.n_pending_items, "clean_markers": rep.n_markers}));
        }
    }
    record(ctx, &v, gen_name, h, || doc_replay("list", rd, sp, cfg, step));
}

/// C17 for documents outside the geometry model: only the law over the reported regions.
fn law_only(ctx: &mut Ctx, rd: &Rendered, sp: &Sp, cfg: &Cfg, step: u8, gen_name: &str) {
    ctx.before_exec(|| doc_replay("list", rd, sp, cfg, step));
    ctx.eval();
    ctx.count(&format!("gen:{gen_name}"));
    ctx.count("judged-by-law-only (outside the geometry model)");
    let (law, seen, listed) = judge::c17_law(&rd.text, sp, cfg);
    ctx.count_n("law:pending-regions-decided", seen as u64);
    ctx.count_n("law:pending-regions-listed", listed as u64);
    let v = match law {
        judge::V::Violated(m) => judge::V::Violated(format!("[law over reported regions] {m} :: {:?}", trunc(&rd.text, 400))),
        o => o,
    };
    let h = hash64(&[rd.text.as_bytes(), sp.ds.as_bytes(), b"law"]);
    record(ctx, &v, gen_name, h, || doc_replay("list", rd, sp, cfg, step));
}

/// The law on arbitrary text (no reference parse, no admission gate).
fn law_text(ctx: &mut Ctx, text: &str, sp: &Sp, cfg: &Cfg, gen_name: &str) {
    let rp = || json!({"kind": "list-law", "text": text, "sp": sp.json(), "cfg": cfg.json()});
    ctx.before_exec(rp);
    ctx.eval();
    ctx.count(&format!("gen:{gen_name}"));
    let (law, seen, listed) = judge::c17_law(text, sp, cfg);
    ctx.count_n("law:pending-regions-decided", seen as u64);
    ctx.count_n("law:pending-regions-listed", listed as u64);
    let v = match law {
        judge::V::Violated(m) => judge::V::Violated(format!("[law over reported regions] {m} :: {:?}", trunc(text, 400))),
        o => o,
    };
    let h = hash64(&[text.as_bytes(), sp.ds.as_bytes(), b"law"]);
    record(ctx, &v, gen_name, h, rp);
}

pub fn replay_law(ctx: &mut Ctx, v: &Value) -> Result<(), String> {
    let text = v.get("text").and_then(|x| x.as_str()).ok_or("no text")?;
    let sp = Sp::from_json(v.get("sp").ok_or("no sp")?).ok_or("bad sp")?;
    let cfg = Cfg::from_json(v.get("cfg").ok_or("no cfg")?).ok_or("bad cfg")?;
    law_text(ctx, text, &sp, &cfg, "replay");
    Ok(())
}

/// Sibling strings for C17: each sibling is one of P, R, R[P], R[PP], P[R], P[P], RU[P] (ready
/// unwrap with a pending child in the body), PU[R].
fn sibling(kind: usize, r: &mut Rng) -> Vec<Piece> {
    let lvl_r = 1u8;
    let lvl_p = 5u8;
    let leaf = |lvl: u8, r: &mut Rng| -> Piece {
        elem(if r.chance(1, 2) { Kind::Tl } else { Kind::Mk }, lvl, false, false, r.next(), vec![text("\n  x();\n")])
    };
    let with = |lvl: u8, kids: Vec<Piece>, r: &mut Rng| -> Piece {
        let mut ch = vec![text("\n  y();\n")];
        for k in kids {
            ch.push(text("  "));
            ch.push(k);
            ch.push(text("\n"));
        }
        elem(if r.chance(1, 2) { Kind::Tl } else { Kind::Mk }, lvl, false, false, r.next(), ch)
    };
    let unwrap_with = |lvl: u8, kid: Piece, r: &mut Rng| -> Piece {
        let ch = vec![text("\nif (c) {\n  "), kid, text("\n  z();\n}\n")];
        elem(if r.chance(1, 2) { Kind::Tl } else { Kind::Mk }, lvl, false, true, r.next(), ch)
    };
    let e = match kind {
        0 => leaf(lvl_p, r),
        1 => leaf(lvl_r, r),
        2 => {
            let k = leaf(lvl_p, r);
            with(lvl_r, vec![k], r)
        }
        3 => {
            let k1 = leaf(lvl_p, r);
            let k2 = leaf(lvl_p, r);
            with(lvl_r, vec![k1, k2], r)
        }
        4 => {
            let k = leaf(lvl_r, r);
            with(lvl_p, vec![k], r)
        }
        5 => {
            let k = leaf(lvl_p, r);
            with(lvl_p, vec![k], r)
        }
        6 => {
            let k = leaf(lvl_p, r);
            unwrap_with(lvl_r, k, r)
        }
        _ => {
            let k = leaf(lvl_r, r);
            unwrap_with(lvl_p, k, r)
        }
    };
    vec![e, text("\nsep();\n")]
}

pub const SIBLING_KINDS: usize = 8;

pub fn run(ctx: &mut Ctx) {
    let quick = ctx.tier == Tier::Quick;
    ctx.set_budget_secs(if quick { 22 } else { 240 });
    let (seed, shard, n) = (ctx.seed, ctx.shard, ctx.nshards);
    let cfg = step_cfg(STEP);
    let scale: u64 = if quick { 8 } else { 80 };
    let is16 = ctx.prop == "C16";
    let is17 = ctx.prop == "C17";
    // ---- sibling strings (bounded exhaustive), most valuable for C17
    let maxlen = if quick { 4 } else { 6 };
    for len in 1..=maxlen {
        let mut stop = false;
        enumerate_sharded(SIBLING_KINDS, len, shard, n, |idx| {
            if stop {
                return;
            }
            let mut r = Rng::new(hash64(&[&idx.iter().map(|x| *x as u8).collect::<Vec<_>>()]));
            let mut d = vec![text("top();\n")];
            for k in idx {
                d.extend(sibling(*k, &mut r));
            }
            let sp = if idx.len() % 2 == 0 { default_sp() } else { short_sp() };
            let rd = render(&d, &sp);
            judge_one(ctx, &rd, &sp, &cfg, STEP, "siblings");
            if ctx.past(if is17 { 0.42 } else { 0.25 }) {
                stop = true;
                ctx.count("siblings-cut-short");
            }
        });
    }
    ctx.note("sibling_strings_max_len", json!(maxlen));
    if is17 {
        // ---- thresholds in the merge of pending into ready regions: a tail of K pending elements
        // (K around 32 / 64 / 128) behind (a) the wrapper-line child templates (a pending region that
        // starts inside a ready half and ends outside it), (b) sibling strings
        let sp = short_sp();
        let ks: [usize; 6] = [0, 5, 33, 40, 66, 130];
        let mut rank = shard;
        while let Some(s) = wrapper_child_template(rank, &sp) {
            if ctx.past(0.50) {
                ctx.count("wrapper-child+tail-cut-short");
                break;
            }
            // thorough: every K, and for a tenth of the templates two larger ones
            let picks: Vec<usize> = if quick {
                vec![ks[(rank / n) as usize % 6], ks[2 + (rank / n) as usize % 4]]
            } else if (rank / n) % 10 == 0 {
                ks.iter().cloned().chain([257usize, 1030]).collect()
            } else {
                ks.to_vec()
            };
            for k in picks {
                let mut t = s.clone();
                for j in 0..k {
                    t.push_str(&format!("\n{}{} name='zzz'{}\n  t{j}();\n{}/{}{}", sp.ds, sp.mk, sp.de, sp.ds, sp.mk, sp.de));
                }
                t.push('\n');
                match admit(&t, &sp, &cfg) {
                    Ok(rd) => judge_one(ctx, &rd, &sp, &cfg, 1, "wrapper-child+tail"),
                    Err(why) => ctx.skip(why),
                }
            }
            rank += n;
        }
        let total = 4_000 * scale;
        for i in (shard..total).step_by(n as usize) {
            if ctx.past(0.56) {
                break;
            }
            let mut r = Rng::for_case(seed, 86, i);
            let mut d = vec![text("top();\n")];
            for _ in 0..r.range(1, 4) {
                let k = r.below(SIBLING_KINDS);
                d.extend(sibling(k, &mut r));
            }
            let k = ks[1 + r.below(5)];
            for _ in 0..k {
                d.extend(sibling(if r.chance(1, 8) { 5 } else { 0 }, &mut r));
            }
            let sp = if i % 2 == 0 { default_sp() } else { short_sp() };
            let rd = render(&d, &sp);
            judge_one(ctx, &rd, &sp, &cfg, STEP, "siblings+tail");
        }
    }
    // ---- G-ast block documents of the C15 space (a third with inline elements, a tenth with
    // CRLF line ends for C15 / C17), at configuration steps 0..4
    let total = 60_000 * scale;
    for i in (shard..total).step_by(n as usize) {
        if ctx.past(if is16 { 0.55 } else if is17 { 0.72 } else { 0.8 }) {
            break;
        }
        let mut r = Rng::for_case(seed, 81, i);
        let step = [2u8, 2, 1, 3, 4, 0][(i / 4 % 6) as usize];
        let cfg = step_cfg(step);
        let sp = match i % 4 {
            0 => default_sp(),
            1 => Sp::new("<!-- <", "> -->", "time-limited", "removal-marker"),
            2 => short_sp(),
            _ => Sp::new("«", "»", "期限", "印"),
        };
        let mut gc = GenCfg::block(*r.pick(&UNITS));
        gc.words = gen::words_for(&[&sp]);
        gc.leading_lb = false;
        gc.holds_of_10 = if is17 { 4 } else { 6 };
        gc.max_depth = 4;
        gc.allow_inline = i % 3 == 0;
        let mut d = gen_block_doc(&mut r, &gc);
        if i % 10 == 8 {
            // lone carriage returns inside lines / mixed line ends (line numbers count '\n' only)
            let mode = 1 + (i / 10 % 2) as usize;
            super::docs::crlf_pieces(&mut d, &mut r, mode);
        }
        let mut rd = render(&d, &sp);
        if i % 10 == 7 {
            // CRLF line ends: spans shift, so re-derive them through the admission gate
            match admit(&rd.text.replace('\n', "\r\n"), &sp, &cfg) {
                Ok(x) => {
                    // `admit` marks satisfied conditions as level 1 and others as level 5; that
                    // is relative to `cfg`, which is the configuration used below
                    rd = x;
                    judge_one(ctx, &rd, &sp, &cfg, if step == 0 { 0 } else { 1 }, "ast-crlf");
                }
                Err(why) => ctx.skip(why),
            }
            continue;
        }
        judge_one(ctx, &rd, &sp, &cfg, step, "ast-block");
    }
    // ---- G-unwrap layouts (C15 space when wrappers are code)
    let reps = if quick { 8 } else { 80 };
    for rank in (shard..UnwrapParams::count() * reps).step_by(n as usize) {
        if ctx.past(if is16 { 0.65 } else if is17 { 0.80 } else { 0.97 }) {
            break;
        }
        let p = UnwrapParams::from_rank(rank % UnwrapParams::count());
        let mut r = Rng::for_case(seed, 82, rank);
        let d = unwrap_doc(&p, &mut r, 1 + (rank % 3) as usize, true);
        let sp = default_sp();
        let rd = render(&d, &sp);
        judge_one(ctx, &rd, &sp, &cfg, STEP, "unwrap-layouts");
    }
    // ---- big documents: hundreds / thousands of items, long lines, characters that need JSON
    // escaping, regions beyond byte 65 535 and line 10 000
    let total = 40 * scale;
    for i in (shard..total).step_by(n as usize) {
        if ctx.past(if is16 { 0.7 } else if is17 { 0.84 } else { 0.9 }) {
            break;
        }
        let mut r = Rng::for_case(seed, 85, i);
        let sp = default_sp();
        let mut gcd = gen_big_doc(&mut r, &sp, i % 2 == 0, true);
        if i % 3 == 0 {
            make_nothing_ready(&mut gcd, &mut r);
        }
        let rd = render(&gcd, &sp);
        judge_one(ctx, &rd, &sp, &cfg, STEP, "ast-big");
    }
    // ---- bounded-exhaustive line sequences
    super::docs::lineseq_stage(ctx, if quick { 6 } else { 8 }, if is16 { 0.73 } else if is17 { 0.88 } else { 0.90 }, true, |ctx, rd, sp| {
        judge_one(ctx, rd, sp, &step_cfg(STEP), STEP, "lineseq");
    });
    // ---- junk atom strings and mutated documents behind the admission gate (documents of the
    // C02 / C03 space: stray delimiters, unclosed and crossing tags, malformed attributes)
    {
        let until = if is16 { 0.78 } else if is17 { 0.93 } else { 1.0 };
        let sp = short_sp();
        let atoms = pipeline_atoms(&sp);
        for len in 1..=(if quick { 4 } else { 5 }) {
            let mut stop = false;
            enumerate_sharded(atoms.len(), len, shard, n, |idx| {
                if stop {
                    return;
                }
                let s: String = idx.iter().map(|i| atoms[*i].as_str()).collect();
                match admit(&s, &sp, &cfg) {
                    Ok(rd) => judge_one(ctx, &rd, &sp, &cfg, 1, "junk-atoms"),
                    Err(why) => ctx.skip(why),
                }
                if ctx.evaluations % 512 == 0 && ctx.past(until - 0.03) {
                    stop = true;
                }
            });
        }
        let total = 30_000 * scale;
        for i in (shard..total).step_by(n as usize) {
            if ctx.past(until) {
                break;
            }
            let (rd0, sp) = super::docs::gen_ast_doc(seed, 89, i, i % 2 == 0, false);
            let mut r = Rng::for_case(seed, 90, i);
            let mut s = rd0.text.clone();
            for _ in 0..1 + r.below(2) {
                s = mutate(&s, &sp, &mut r);
            }
            match admit(&s, &sp, &cfg) {
                Ok(rd) => judge_one(ctx, &rd, &sp, &cfg, 1, "mutated"),
                Err(why) => ctx.skip(why),
            }
        }
    }
    if is17 {
        // ---- arbitrary text (junk atom strings, mutated documents; no admission gate): the law over
        // the reported regions needs no reference parse
        let sps = [short_sp(), Sp::new("|", "|", "tl", "m")];
        for (k, sp) in sps.iter().enumerate() {
            let atoms = pipeline_atoms(sp);
            let frac = 0.93 + 0.02 * k as f64;
            for len in 1..=(if quick { 4 } else { 5 }) {
                let mut stop = false;
                enumerate_sharded(atoms.len(), len, shard, n, |idx| {
                    if stop {
                        return;
                    }
                    let s: String = idx.iter().map(|i| atoms[*i].as_str()).collect();
                    law_text(ctx, &s, sp, &cfg, "junk-atoms-law");
                    if ctx.evaluations % 512 == 0 && ctx.past(frac) {
                        stop = true;
                    }
                });
            }
        }
        let total = 60_000 * scale;
        for i in (shard..total).step_by(n as usize) {
            if ctx.out_of_time() {
                break;
            }
            let (rd0, sp) = super::docs::gen_ast_doc(seed, 87, i, i % 2 == 0, false);
            let mut r = Rng::for_case(seed, 88, i);
            let mut s = rd0.text.clone();
            for _ in 0..1 + r.below(3) {
                s = mutate(&s, &sp, &mut r);
            }
            law_text(ctx, &s, &sp, &step_cfg(1 + (i % 4) as u8), "mutated-law");
        }
    }
    if is16 {
        // ---- high line numbers: the same documents pushed down by N lines (number column width)
        for (k, npre) in [8usize, 97, 98, 99, 998, 999, 9_998, 99_998, 999_998].iter().enumerate() {
            let reps: u64 = if *npre > 5_000 { 1 } else if quick { 8 } else { 64 };
            for j in 0..reps {
                let i = (k as u64) * 1000 + j;
                if i % n != shard {
                    continue;
                }
                let mut r = Rng::for_case(seed, 84, i);
                let sp = default_sp();
                let mut gc = GenCfg::block(*r.pick(&UNITS));
                gc.leading_lb = false;
                gc.allow_inline = j % 2 == 0;
                let mut d = gen_block_doc(&mut r, &gc);
                d.insert(0, text("pre();\n".repeat(*npre)));
                let rd = render(&d, &sp);
                judge_one(ctx, &rd, &sp, &cfg, STEP, "high-line-numbers");
            }
        }
        // ---- regions starting / ending at any column, tab / space prefixes, multi-line inline
        // elements, files starting with a line break
        let total = 60_000 * scale;
        for i in (shard..total).step_by(n as usize) {
            if ctx.out_of_time() {
                break;
            }
            let mut r = Rng::for_case(seed, 83, i);
            let sp = if i % 2 == 0 { default_sp() } else { short_sp() };
            let mut gc = GenCfg::block(*r.pick(&UNITS));
            gc.words = gen::words_for(&[&sp]);
            gc.allow_inline = true;
            gc.inline_tabs = i % 2 == 0;
            gc.leading_lb = true;
            gc.multibyte = i % 3 != 0;
            let mut d = gen_block_doc(&mut r, &gc);
            if i % 5 == 0 {
                d.insert(0, text("\n"));
            }
            let rd = render(&d, &sp);
            judge_one(ctx, &rd, &sp, &cfg, STEP, "ast-inline-leadingLB");
        }
    }
    let rule = match ctx.prop.as_str() {
        "C15" => "distinct documents of the C15 space with >= 1 Ready region: list items vs. the markers clean applied (hook) vs. reference regions, highlighted text, purity",
        "C16" => "distinct documents with >= 1 list item: JSON structure, every item vs. the independent renderer, pretty == headers + JSON blocks",
        _ => "distinct documents of the C15 space with >= 1 Pending region: (first line, last line, status) sequence of list_all vs. reference regions; Ready subsequence == list",
    };
    ctx.note("rule", json!(rule));
}

pub fn replay(ctx: &mut Ctx, v: &Value) -> Result<(), String> {
    let rd = Rendered::from_json(v.get("doc").ok_or("no doc")?).ok_or("bad doc")?;
    let sp = Sp::from_json(v.get("sp").ok_or("no sp")?).ok_or("bad sp")?;
    let cfg = Cfg::from_json(v.get("cfg").ok_or("no cfg")?).ok_or("bad cfg")?;
    let step = v.get("step").and_then(|s| s.as_u64()).unwrap_or(STEP as u64) as u8;
    judge_one(ctx, &rd, &sp, &cfg, step, "replay");
    Ok(())
}
