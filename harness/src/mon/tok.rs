//! C07 tokenization is a lossless partition with consistent offsets.
//! C08 leftmost-shortest tag recognition (vs. R-scan), with known finding KF-C08.

use crate::api::{self, call_tokenize, Sp, Tok};
use crate::ctx::{Ctx, Tier};
use crate::doc::*;
use crate::gen::*;
use crate::refmodel::{rautomaton, rscan, rtag};
use crate::util::*;
use serde_json::{json, Value};

/// C07 structural oracle. Ok(number of tag tokens) or Err(reason).
pub fn c07_oracle(s: &str, ds: &str, de: &str, ts: &[Tok]) -> Result<usize, String> {
    let mut bpos = 0;
    let mut cpos = 0;
    let mut cat = String::new();
    let mut prev_text = false;
    let mut tags = 0;
    for (i, t) in ts.iter().enumerate() {
        if t.value.is_empty() || t.be <= t.bs {
            return Err(format!("token {i} is empty"));
        }
        if t.bs != bpos {
            return Err(format!("token {i} starts at byte {} but the previous ended at {}", t.bs, bpos));
        }
        if t.cs != cpos {
            return Err(format!("token {i} starts at char {} but the previous ended at {}", t.cs, cpos));
        }
        if t.be > s.len() || !s.is_char_boundary(t.bs) || !s.is_char_boundary(t.be) {
            return Err(format!("token {i} byte offsets {}..{} not on char boundaries of a {}-byte source", t.bs, t.be, s.len()));
        }
        if s[t.bs..t.be] != t.value {
            return Err(format!("token {i} value differs from the source slice"));
        }
        if t.ce < t.cs || t.ce - t.cs != t.value.chars().count() {
            return Err(format!("token {i}: char span {}..{} but {} characters", t.cs, t.ce, t.value.chars().count()));
        }
        if t.tag {
            tags += 1;
            if !(t.value.starts_with(ds) && t.value.ends_with(de)) {
                return Err(format!("tag token {i} {:?} does not start/end with the delimiters", trunc(&t.value, 60)));
            }
        }
        if !t.tag && prev_text {
            return Err(format!("text tokens {} and {i} are adjacent", i - 1));
        }
        prev_text = !t.tag;
        bpos = t.be;
        cpos = t.ce;
        cat.push_str(&t.value);
    }
    if bpos != s.len() || cat != s {
        return Err(format!("tokens cover {} of {} bytes", bpos, s.len()));
    }
    Ok(tags)
}

fn replay_tok(s: &str, ds: &str, de: &str) -> Value {
    json!({"kind": "tok", "src": s, "ds": ds, "de": de})
}

pub fn judge_string(ctx: &mut Ctx, s: &str, ds: &str, de: &str, gen_name: &str) {
    ctx.eval();
    let is07 = ctx.prop == "C07";
    let toks = match call_tokenize(s, ds, de) {
        Ok(t) => t,
        Err(p) => {
            ctx.panic_site(&p);
            ctx.violation(
                gen_name,
                format!("tokenize panicked: {} @ {}", trunc(&p.msg, 80), api::short_loc(&p.loc)),
                replay_tok(s, ds, de),
            );
            return;
        }
    };
    if is07 {
        match c07_oracle(s, ds, de, &toks) {
            Ok(tags) => {
                if !s.is_empty() {
                    ctx.nontrivial(hash64(&[s.as_bytes(), ds.as_bytes(), de.as_bytes()]));
                }
                if tags > 0 {
                    ctx.count("strings-with-tag-token");
                }
                if !s.is_ascii() {
                    ctx.count("strings-with-multibyte");
                }
                if s.chars().last().map(|c| c.len_utf8() > 1).unwrap_or(false) {
                    ctx.count("strings-ending-multibyte");
                }
                ctx.count_n("tokens-observed", toks.len() as u64);
                if ctx.sample_due() {
                    ctx.sample(|| json!({"generator": gen_name, "source": s, "delimiters": [ds, de],
                        "tokens": toks.iter().map(|t| json!([t.bs, t.be, t.cs, t.ce, if t.tag {"tag"} else {"text"}])).collect::<Vec<_>>()}));
                }
            }
            Err(m) => ctx.violation(gen_name, format!("{m}: {:?}", trunc(s, 120)), replay_tok(s, ds, de)),
        }
        return;
    }
    // C08
    let got: Vec<(usize, usize, bool)> = toks.iter().map(|t| (t.bs, t.be, t.tag)).collect();
    let want = rscan(s, ds, de);
    let h = hash64(&[s.as_bytes(), ds.as_bytes(), de.as_bytes()]);
    if got == want {
        if want.iter().any(|t| t.2) {
            ctx.nontrivial(h);
            ctx.count("agree-with-tag");
        } else {
            ctx.count("agree-no-tag");
        }
        if ctx.sample_due() && want.iter().any(|t| t.2) {
            ctx.sample(|| json!({"generator": gen_name, "source": s, "delimiters": [ds, de], "tag_spans": want.iter().filter(|t| t.2).map(|t| json!([t.0, t.1])).collect::<Vec<_>>()}));
        }
        return;
    }
    let auto = rautomaton(s, ds, de);
    if got == auto && ctx.is_open("KF-C08") {
        ctx.nontrivial(h);
        ctx.known_finding("KF-C08", || {
            json!({"source": s, "delimiters": [ds, de], "implementation": got, "textbook": want})
        });
        return;
    }
    ctx.violation(
        gen_name,
        format!(
            "token spans {:?} differ from the leftmost-shortest scan {:?}{} on {:?}",
            got,
            want,
            if got == auto { " (equals the no-fallback automaton, KF-C08 not listed as open)" } else { " (and from the no-fallback automaton model)" },
            trunc(s, 120)
        ),
        replay_tok(s, ds, de),
    );
}

fn max_len_for(alpha: usize, cap: u64) -> usize {
    let mut n = 0;
    let mut total: u64 = 1;
    loop {
        let next = total.saturating_mul(alpha as u64);
        if next > cap {
            return n;
        }
        total = next;
        n += 1;
        if n >= 12 {
            return n;
        }
    }
}

/// End-to-end: a ready element whose opening tag is preceded / followed by delimiter prefixes.
fn e2e_one(ctx: &mut Ctx, text: &str, sp: &Sp) {
    let cfg = step_cfg(STEP);
    let (ds, de) = (sp.ds.as_str(), sp.de.as_str());
    // reference expectation via R-scan + R-tag
    let spans = rscan(text, ds, de);
    let tags: Vec<&(usize, usize, bool)> = spans.iter().filter(|t| t.2).collect();
    let bodies: Vec<Option<(String, Vec<(String, Option<String>)>)>> = tags
        .iter()
        .map(|t| rtag(&text[t.0 + ds.len()..t.1 - de.len()]))
        .collect();
    // the premise: exactly our two tags are found by the textbook scan
    let ok = tags.len() == 2
        && bodies[0].as_ref().map(|b| b.0 == "m").unwrap_or(false)
        && bodies[1].as_ref().map(|b| b.0 == "/m").unwrap_or(false);
    if !ok {
        ctx.skip("e2e: affix changes the textbook tag structure");
        return;
    }
    ctx.eval();
    let want = format!("{}{}", &text[..tags[0].0], &text[tags[1].1..]);
    let rp = json!({"kind": "tok-e2e", "text": text, "sp": sp.json()});
    match api::call_clean(text, sp, &cfg) {
        Err(p) => {
            ctx.panic_site(&p);
            ctx.violation("e2e", format!("clean panicked @ {}", api::short_loc(&p.loc)), rp);
        }
        Ok((out, _)) => {
            let h = hash64(&[text.as_bytes(), ds.as_bytes()]);
            if nonws(&out) == nonws(&want) {
                ctx.nontrivial(h);
                ctx.count("e2e-removed");
            } else {
                let got: Vec<(usize, usize, bool)> = call_tokenize(text, ds, de)
                    .map(|t| t.iter().map(|t| (t.bs, t.be, t.tag)).collect())
                    .unwrap_or_default();
                if got == rautomaton(text, ds, de) && got != spans && ctx.is_open("KF-C08") {
                    ctx.nontrivial(h);
                    ctx.known_finding("KF-C08", || json!({"text": text, "delimiters": [ds, de], "output": out}));
                } else {
                    ctx.violation(
                        "e2e",
                        format!("ready element next to delimiter prefix not removed: {:?} => {:?}", text, trunc(&out, 200)),
                        rp,
                    );
                }
            }
        }
    }
}

fn e2e(ctx: &mut Ctx) {
    for (di, (ds, de)) in DELIMS.iter().enumerate() {
        if di as u64 % ctx.nshards != ctx.shard {
            continue;
        }
        let sp = Sp::new(ds, de, "tl", "m");
        let mut affixes: Vec<String> = vec![String::new(), "x".into(), " ".into()];
        for d in [ds, de] {
            let cs: Vec<char> = d.chars().collect();
            for k in 1..cs.len() {
                affixes.push(cs[..k].iter().collect());
                affixes.push(cs[k..].iter().collect());
            }
        }
        affixes.sort();
        affixes.dedup();
        for pre in &affixes {
            for post in &affixes {
                let open = format!("{ds}m name='feat-a'{de}");
                let close = format!("{ds}/m{de}");
                let text = format!("keep1 {pre}{open}gone{close}{post} keep2");
                e2e_one(ctx, &text, &sp);
            }
        }
    }
}

pub fn run(ctx: &mut Ctx) {
    let quick = ctx.tier == Tier::Quick;
    ctx.set_budget_secs(if quick { 22 } else { 420 });
    let (seed, shard, n) = (ctx.seed, ctx.shard, ctx.nshards);
    let cap: u64 = if quick { 12_000_000 } else { 400_000_000 };
    let mut bounds = vec![];
    // exhaustive over the tokenizer alphabet, per delimiter pair
    let all_delims: Vec<(&str, &str)> = DELIMS.iter().chain(TOK_EXTRA_DELIMS.iter()).copied().collect();
    for (di, (ds, de)) in all_delims.iter().enumerate() {
        let atoms = tokenizer_atoms(ds, de);
        let maxlen = max_len_for(atoms.len(), cap);
        let frac = 0.8 * (di as f64 + 1.0) / all_delims.len() as f64;
        let mut completed = 0;
        for len in 0..=maxlen {
            let mut stop = false;
            enumerate_sharded(atoms.len(), len, shard, n, |idx| {
                if stop {
                    return;
                }
                let s: String = idx.iter().map(|i| atoms[*i].as_str()).collect();
                judge_string(ctx, &s, ds, de, "atoms");
                if ctx.evaluations % 4096 == 0 && ctx.past(frac) {
                    stop = true;
                    ctx.count("exhaustive-level-cut-short");
                }
            });
            if stop {
                break;
            }
            completed = len;
        }
        // "completed" is per shard; the orchestrator keeps the value of the first shard, all
        // shards run the same levels unless their time budget runs out
        bounds.push(json!({"delimiters": [ds, de], "alphabet": atoms.len(), "max_atoms_completed": completed, "max_atoms_planned": maxlen}));
    }
    ctx.note("exhaustive_bounds", json!(bounds));
    // random long strings
    let total: u64 = if quick { 200_000 } else { 8_000_000 };
    for i in (shard..total).step_by(n as usize) {
        if ctx.past(0.9) {
            break;
        }
        let mut r = Rng::for_case(seed, 21, i);
        let (ds, de) = all_delims[r.below(all_delims.len())];
        let atoms = tokenizer_atoms(ds, de);
        let len = 8 + r.below(40);
        let s: String = (0..len).map(|_| r.pick(&atoms).as_str()).collect();
        judge_string(ctx, &s, ds, de, "random-long");
    }
    // rendered AST documents
    let total: u64 = if quick { 20_000 } else { 600_000 };
    for i in (shard..total).step_by(n as usize) {
        if ctx.past(0.97) {
            break;
        }
        let (rd, sp) = super::docs::gen_ast_doc(seed, 22, i, i % 2 == 0, false);
        judge_string(ctx, &rd.text, &sp.ds, &sp.de, "ast-doc");
    }
    if ctx.prop == "C08" {
        e2e(ctx);
    }
    let rule = if ctx.prop == "C07" {
        "distinct non-empty (source, delimiters) whose token list passed every structural test"
    } else {
        "distinct (source, delimiters) containing >= 1 tag by the textbook scan (agreeing, or exactly KF-C08)"
    };
    ctx.note("rule", json!(rule));
}

pub fn replay(ctx: &mut Ctx, v: &Value) -> Result<(), String> {
    if v.get("kind").and_then(|k| k.as_str()) == Some("tok-e2e") {
        let text = v.get("text").and_then(|x| x.as_str()).ok_or("no text")?;
        let sp = Sp::from_json(v.get("sp").ok_or("no sp")?).ok_or("bad sp")?;
        e2e_one(ctx, text, &sp);
        return Ok(());
    }
    let s = v.get("src").and_then(|x| x.as_str()).ok_or("no src")?;
    let ds = v.get("ds").and_then(|x| x.as_str()).ok_or("no ds")?;
    let de = v.get("de").and_then(|x| x.as_str()).ok_or("no de")?;
    judge_string(ctx, s, ds, de, "replay");
    Ok(())
}
