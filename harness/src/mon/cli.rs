//! C20 the CLI is a faithful wrapper: I/O paths, config file, defaults, environment.
//! Every invocation of the real binary is an event; the monitor compares equivalence classes.

use crate::api::{self, Cfg, Entry, Sp};
use crate::ctx::{Ctx, Tier};
use crate::doc::*;
use crate::gen::{self, *};
use crate::util::*;
use serde_json::{json, Value};
use std::io::Write;
use std::process::{Command, Stdio};

#[derive(Clone, Debug)]
pub struct Inv {
    pub args: Vec<String>,
    pub stdin: Option<String>,
    pub env: Vec<(String, Option<String>)>,
    /// read this file afterwards as the result instead of stdout
    pub result_file: Option<String>,
    pub valgrind: bool,
}

#[derive(Clone, Debug)]
pub struct Outcome {
    pub code: Option<i32>,
    pub stdout: Vec<u8>,
    pub stderr: String,
    pub result: Vec<u8>,
}

pub fn run_bin(bin: &str, inv: &Inv) -> Result<Outcome, String> {
    let mut cmd = if inv.valgrind {
        let mut c = Command::new("valgrind");
        c.args(["-q", "--error-exitcode=99", "--leak-check=full", "--errors-for-leak-kinds=definite"]);
        c.arg(bin);
        c
    } else {
        Command::new(bin)
    };
    cmd.args(&inv.args);
    for (k, v) in &inv.env {
        match v {
            Some(v) => {
                cmd.env(k, v);
            }
            None => {
                cmd.env_remove(k);
            }
        }
    }
    cmd.stdin(if inv.stdin.is_some() { Stdio::piped() } else { Stdio::null() });
    cmd.stdout(Stdio::piped()).stderr(Stdio::piped());
    let mut child = cmd.spawn().map_err(|e| format!("spawn: {e}"))?;
    if let Some(s) = &inv.stdin {
        let mut si = child.stdin.take().unwrap();
        let data = s.clone().into_bytes();
        // write from a thread so that a child that does not read cannot block us
        let h = std::thread::spawn(move || {
            let _ = si.write_all(&data);
        });
        let _ = h.join();
    }
    let o = child.wait_with_output().map_err(|e| format!("wait: {e}"))?;
    let result = match &inv.result_file {
        Some(f) => std::fs::read(f).unwrap_or_default(),
        None => o.stdout.clone(),
    };
    Ok(Outcome {
        code: o.status.code(),
        stdout: o.stdout,
        stderr: String::from_utf8_lossy(&o.stderr).to_string(),
        result,
    })
}


pub enum CliErr {
    /// the binary misbehaved (non-zero exit, output not UTF-8, wrote to stdout besides --output)
    Bad(String),
    /// the environment failed (cannot spawn, cannot write scratch files): inconclusive
    Env(String),
}

/// `clean` as the user runs it: the real binary on a file / stdin, result from stdout / another
/// file / the input file itself, targets by flags / config file / both.
pub fn clean_via_cli(bin: &str, dir: &str, tag: &str, text: &str, sp: &Sp, cfg: &Cfg, variant: u64) -> Result<String, CliErr> {
    let c = Case {
        text: text.to_string(),
        default_spelling: *sp == Sp::new("<!-- <", "> -->", "time-limited", "removal-marker"),
        sp: sp.clone(),
        cfg: cfg.clone(),
        passthrough: false,
    };
    let in_path = format!("{dir}/in-{tag}.src");
    std::fs::write(&in_path, text).map_err(|e| CliErr::Env(format!("cannot write input file: {e}")))?;
    let via_stdin = variant % 2 == 1;
    let output_kind = (variant / 2) % 3;
    let targets_via = ((variant / 6) % 3) as usize;
    let mut args = option_args(&c, targets_via, dir, tag, variant / 18).map_err(CliErr::Env)?;
    let mut result_file = None;
    if !via_stdin {
        args.push(format!("--filename={in_path}"));
    }
    match output_kind {
        1 => {
            let f = format!("{dir}/out-{tag}.txt");
            let _ = std::fs::write(&f, "stale content of an earlier, longer report\n".repeat(3));
            args.push(format!("--output={f}"));
            result_file = Some(f);
        }
        2 if !via_stdin => {
            args.push(format!("--output={in_path}"));
            result_file = Some(in_path.clone());
        }
        _ => {}
    }
    let inv = Inv {
        args: args.clone(),
        stdin: if via_stdin { Some(text.to_string()) } else { None },
        env: vec![("TZ".into(), TZS[((variant / 54) % 4) as usize].map(|s| s.to_string()))],
        result_file: result_file.clone(),
        valgrind: false,
    };
    let o = run_bin(bin, &inv).map_err(CliErr::Env)?;
    let _ = std::fs::remove_file(&in_path);
    if let Some(f) = &result_file {
        let _ = std::fs::remove_file(f);
    }
    let _ = std::fs::remove_file(format!("{dir}/targets-{tag}.txt"));
    if o.code != Some(0) {
        return Err(CliErr::Bad(format!("binary exited with {:?} (args {:?}): {}", o.code, args, trunc(&o.stderr, 300))));
    }
    if result_file.is_some() && !o.stdout.is_empty() {
        return Err(CliErr::Bad("--output given but something was written to standard output as well".into()));
    }
    String::from_utf8(o.result).map_err(|_| CliErr::Bad(format!("result is not valid UTF-8 (args {:?})", args)))
}

#[derive(Clone, Copy, Debug, PartialEq)]
pub enum Mode {
    Clean,
    List,
    ListJson,
    ListAll,
    ListAllJson,
}

impl Mode {
    fn args(&self) -> Vec<&'static str> {
        match self {
            Mode::Clean => vec![],
            Mode::List => vec!["--list"],
            Mode::ListJson => vec!["--list", "--list-json"],
            Mode::ListAll => vec!["--list-all"],
            Mode::ListAllJson => vec!["--list-all", "--list-json"],
        }
    }
    fn entry(&self) -> Entry {
        match self {
            Mode::Clean => Entry::Clean,
            Mode::List => Entry::ListPretty,
            Mode::ListJson => Entry::ListJson,
            Mode::ListAll => Entry::ListAllPretty,
            Mode::ListAllJson => Entry::ListAllJson,
        }
    }
}

pub const MODES: [Mode; 5] = [Mode::Clean, Mode::List, Mode::ListJson, Mode::ListAll, Mode::ListAllJson];
pub const TZS: [Option<&str>; 4] = [Some("UTC"), Some("Asia/Tokyo"), Some("America/Los_Angeles"), None];

pub struct Case {
    pub text: String,
    pub sp: Sp,
    pub cfg: Cfg,
    pub default_spelling: bool,
    /// C04 leg: the reference evaluation finds nothing ready, so the result must be the input
    /// itself (the library is not consulted)
    pub passthrough: bool,
}

/// Render a target config file: one name per line; line ends LF or CRLF, with or without a
/// final line break, optionally with a duplicated name (the target set is a set).
fn target_file_text(names: &[String], style: u64) -> String {
    let le = if style & 1 == 1 { "\r\n" } else { "\n" };
    let mut v: Vec<String> = names.to_vec();
    if style & 2 == 2 && !v.is_empty() {
        v.push(v[0].clone());
    }
    let mut s = v.join(le);
    if style & 4 == 4 {
        s.push_str(le);
    }
    s
}

pub fn option_args(c: &Case, targets_via: usize, dir: &str, tag: &str, style: u64) -> Result<Vec<String>, String> {
    let mut a: Vec<String> = vec![];
    if !c.default_spelling {
        a.push(format!("--delimiter-start={}", c.sp.ds));
        a.push(format!("--delimiter-end={}", c.sp.de));
        a.push(format!("--time-limited-tag-name={}", c.sp.tl));
        a.push(format!("--removal-marker-tag-name={}", c.sp.mk));
    }
    a.push(format!("--time-limited-current={}", c.cfg.now));
    if c.cfg.offset != "+00:00" {
        a.push(format!("--time-limited-time-offset={}", c.cfg.offset));
    }
    let t = &c.cfg.targets;
    match targets_via {
        // flags only
        0 => {
            for x in t {
                a.push(format!("--removal-marker-target-name={x}"));
            }
        }
        // file only
        1 => {
            if !t.is_empty() {
                let f = format!("{dir}/targets-{tag}.txt");
                std::fs::write(&f, target_file_text(t, style | 4)).map_err(|e| e.to_string())?;
                a.push(format!("--removal-marker-target-config={f}"));
            }
        }
        // split: first half in the file (no trailing newline), rest as flags
        _ => {
            let h = t.len() / 2;
            if h > 0 {
                let f = format!("{dir}/targets-{tag}.txt");
                std::fs::write(&f, target_file_text(&t[..h], style)).map_err(|e| e.to_string())?;
                a.push(format!("--removal-marker-target-config={f}"));
            }
            for x in &t[h..] {
                a.push(format!("--removal-marker-target-name={x}"));
            }
        }
    }
    Ok(a)
}

pub fn judge_case(ctx: &mut Ctx, bin: &str, dir: &str, c: &Case, mode: Mode, variant: u64, gen_name: &str, valgrind: bool) {
    let tag = format!("{}-{}", ctx.shard, ctx.evaluations);
    // library result for the corresponding configuration (same /repo sources, in-process)
    let want = if c.passthrough {
        c.text.clone()
    } else {
        match api::call(mode.entry(), &c.text, &c.sp, &c.cfg) {
            Ok((o, _)) => o,
            Err(_) => {
                ctx.skip("library panics on this input (C01 territory)");
                return;
            }
        }
    };
    let in_path = format!("{dir}/in-{tag}.src");
    if std::fs::write(&in_path, &c.text).is_err() {
        ctx.inconclusive("cannot write input file");
        return;
    }
    let input_via_stdin = variant % 2 == 1;
    let output_kind = (variant / 2) % 3; // 0 stdout, 1 --output other file, 2 --output = input file
    let targets_via = ((variant / 6) % 3) as usize;
    let tz = TZS[((variant / 18) % 4) as usize];
    let lang = if (variant / 72) % 2 == 0 { Some("C") } else { Some("ja_JP.UTF-8") };
    let mut args = match option_args(c, targets_via, dir, &tag, variant / 144) {
        Ok(a) => a,
        Err(e) => {
            ctx.inconclusive(&format!("cannot write target file: {e}"));
            return;
        }
    };
    args.extend(mode.args().iter().map(|s| s.to_string()));
    let mut result_file = None;
    if !input_via_stdin {
        args.push(format!("--filename={in_path}"));
    }
    match output_kind {
        1 => {
            let f = format!("{dir}/out-{tag}.txt");
            let _ = std::fs::remove_file(&f);
            args.push(format!("--output={f}"));
            result_file = Some(f);
        }
        2 if !input_via_stdin => {
            // the input file itself, now and then named by another spelling of the same path
            let alias = match (variant / 1152) % 3 {
                1 => in_path.replacen("/in-", "/./in-", 1),
                2 => in_path.replacen("/in-", "//in-", 1),
                _ => in_path.clone(),
            };
            args.push(format!("--output={alias}"));
            result_file = Some(in_path.clone());
        }
        _ => {}
    }
    let inv = Inv {
        args: args.clone(),
        stdin: if input_via_stdin { Some(c.text.clone()) } else { None },
        env: vec![
            ("TZ".into(), tz.map(|s| s.to_string())),
            ("LANG".into(), lang.map(|s| s.to_string())),
            ("LC_ALL".into(), lang.map(|s| s.to_string())),
        ],
        result_file: result_file.clone(),
        valgrind,
    };
    ctx.eval();
    let rp = || {
        json!({"kind": "cli", "text": c.text, "sp": c.sp.json(), "cfg": c.cfg.json(), "default_spelling": c.default_spelling, "passthrough": c.passthrough,
           "mode": format!("{mode:?}"), "variant": variant})
    };
    let o = match run_bin(bin, &inv) {
        Ok(o) => o,
        Err(e) => {
            ctx.inconclusive(&format!("cannot run the binary: {e}"));
            return;
        }
    };
    // event log entry (counted; a few kept as samples)
    ctx.count(&format!("input:{}", if input_via_stdin { "stdin" } else { "file" }));
    ctx.count(&format!("output:{}", ["stdout", "file", "input-file"][if result_file.is_none() { 0 } else { output_kind as usize }]));
    ctx.count(&format!("targets:{}", ["flags", "file", "file+flags"][targets_via]));
    ctx.count(&format!("tz:{}", tz.unwrap_or("unset")));
    ctx.count(&format!("mode:{mode:?}"));
    if valgrind {
        ctx.count("valgrind-runs");
        if o.code == Some(99) {
            ctx.violation("valgrind", format!("memcheck reported errors: {}", trunc(&o.stderr, 600)), rp());
            return;
        }
    }
    if o.code != Some(0) {
        ctx.violation(
            gen_name,
            format!("binary exited with {:?} (args {:?}): {}", o.code, args, trunc(&o.stderr, 300)),
            rp(),
        );
    } else if o.result != want.as_bytes() {
        ctx.violation(
            gen_name,
            format!(
                "binary result differs from {} (mode {mode:?}, input {}, output {}, targets via {}, TZ {:?}): {:?} vs {:?}",
                if c.passthrough { "the input although nothing is ready" } else { "the library result" },
                if input_via_stdin { "stdin" } else { "file" },
                if result_file.is_none() { "stdout" } else { "file" },
                ["flags", "file", "file+flags"][targets_via],
                tz,
                trunc(&String::from_utf8_lossy(&o.result), 300),
                trunc(&want, 300)
            ),
            rp(),
        );
    } else if result_file.is_some() && !o.stdout.is_empty() {
        ctx.violation(gen_name, "--output given but something was written to standard output as well".into(), rp());
    } else {
        ctx.nontrivial(hash64(&[c.text.as_bytes(), format!("{args:?}{tz:?}{mode:?}").as_bytes()]));
        if want != c.text {
            ctx.count("invocations-with-nontrivial-result");
        }
        if ctx.sample_due() {
            ctx.sample(|| json!({"argv": args, "stdin": input_via_stdin, "TZ": tz, "exit": o.code, "result_bytes": o.result.len(), "equals_library": true}));
        }
    }
    let _ = std::fs::remove_file(&in_path);
    if let Some(f) = result_file {
        let _ = std::fs::remove_file(f);
    }
    let _ = std::fs::remove_file(format!("{dir}/targets-{tag}.txt"));
}

fn gen_case(seed: u64, i: u64) -> Case {
    let mut r = Rng::for_case(seed, 111, i);
    let default_spelling = i % 3 == 0;
    let sp = if default_spelling {
        Sp::new("<!-- <", "> -->", "time-limited", "removal-marker")
    } else {
        // spellings that survive an argv round trip unchanged (no leading '-')
        let pool = [("/* <", "> */"), ("<", ">"), ("[[", "]]"), ("«", "»"), ("⟦🎈", "🎈⟧"), ("{% ", " %}"), ("#<", ">#"), ("|", "|"), ("\\(", "\\)"), ("<\\n", "\\t>"), ("$(", ")"), ("%s<", ">%d")];
        let (ds, de) = *r.pick(&pool);
        let (tl, mk) = *r.pick(&TAG_NAMES);
        Sp::new(ds, de, tl, mk)
    };
    let mut gc = GenCfg::block(*r.pick(&UNITS));
    gc.words = gen::words_for(&[&sp]);
    gc.allow_inline = r.chance(1, 3);
    gc.holds_of_10 = 5;
    let d = gen_block_doc(&mut r, &gc);
    let rd = render(&d, &sp);
    let step = 1 + r.below(4) as u8;
    // (clock variants: fractional seconds, other zone, other configured offset)
    let mut cfg = step_cfg_var(step, r.next());
    // an argument that contains a comma, a blank or an equals sign is one target name
    if r.chance(1, 6) {
        cfg.targets.push(r.pick(&["feat-b,feat", "feat-b feat", "x=feat", ",feat", "feat,"]).to_string());
    }
    // express the same instant in another zone / use a non-zero offset sometimes
    if !cfg.now.contains('.') && r.chance(1, 3) {
        let e = crate::refmodel::parse_rfc3339(&cfg.now).unwrap();
        cfg.now = crate::refmodel::fmt_rfc3339(e, *r.pick(&[32400, -28800, 19800]));
    }
    if cfg.offset == "+00:00" && r.chance(1, 4) {
        cfg.offset = r.pick(&["+09:00", "-0800", "+0530", "-03:30"]).to_string();
    }
    if r.chance(1, 5) {
        cfg.targets.clear();
    }
    // CRLF line ends now and then (the binary must pass them through like the library does)
    // now and then a document larger than a pipe buffer (64 KiB): the same document repeated
    let big = r.chance(1, 40);
    let rd = if big {
        let reps = 70_000 / rd.text.len().max(1) + 1;
        crate::doc::Rendered { text: vec![rd.text.as_str(); reps].join("\n"), elems: vec![] }
    } else {
        rd
    };
    let rd = if r.chance(1, 15) {
        // a byte-order mark at the start of the file must pass through like any other text
        crate::doc::Rendered { text: format!("\u{feff}{}", rd.text), elems: vec![] }
    } else {
        rd
    };
    let rd = if r.chance(1, 15) {
        // a NUL / other control character in the text is text
        let c: &str = *r.pick(&["\u{0}", "\u{1b}", "\u{7f}", "\u{0}\u{0}"]);
        let at = if r.chance(1, 2) { 0 } else { rd.text.char_indices().map(|x| x.0).nth(r.below(rd.text.chars().count().max(1))).unwrap_or(0) };
        // (not inside a tag: only at a position outside every element span)
        if rd.elems.iter().all(|e| !(e.open.0 < at && at < e.open.1) && !(e.close.0 < at && at < e.close.1)) {
            crate::doc::Rendered { text: format!("{}{}{}", &rd.text[..at], c, &rd.text[at..]), elems: vec![] }
        } else {
            rd
        }
    } else {
        rd
    };
    let rd = if r.chance(1, 20) {
        // a long last line without line break (partial writes to stdout must not lose it)
        crate::doc::Rendered { text: format!("{}\n{}", rd.text, "tail ".repeat(*r.pick(&[205usize, 300, 3000]))), elems: vec![] }
    } else {
        rd
    };
    let text = match r.below(12) {
        0 => rd.text.replace('\n', "\r\n"),
        1 => {
            // mixed line endings
            let mut k = 0;
            rd.text.split('\n').collect::<Vec<_>>().join("\u{1}").chars().map(|c| if c == '\u{1}' { k += 1; if k % 2 == 0 { "\r\n".to_string() } else { "\n".to_string() } } else { c.to_string() }).collect()
        }
        _ => rd.text,
    };
    Case {
        text,
        sp,
        cfg,
        default_spelling,
        passthrough: false,
    }
}

pub fn run(ctx: &mut Ctx) {
    let quick = ctx.tier == Tier::Quick;
    ctx.set_budget_secs(if quick { 25 } else { 300 });
    let (seed, shard, n) = (ctx.seed, ctx.shard, ctx.nshards);
    let Ok(bin) = std::env::var("CV_CLI_BIN") else {
        ctx.inconclusive("CV_CLI_BIN not set");
        return;
    };
    let dir = std::env::var("CV_TMP").unwrap_or_else(|_| "/verif/build/tmp".into());
    let dir = format!("{dir}/c20-{shard}");
    if std::fs::create_dir_all(&dir).is_err() {
        ctx.inconclusive("cannot create scratch directory");
        return;
    }
    let total: u64 = if quick { 12_000 } else { 120_000 };
    for i in (shard..total).step_by(n as usize) {
        if ctx.past(0.85) {
            break;
        }
        let c = gen_case(seed, i);
        let mode = MODES[(i / 3) as usize % MODES.len()];
        let mut r = Rng::for_case(seed, 112, i);
        // one full equivalence class sample: base variant + 2 random other variants
        judge_case(ctx, &bin, &dir, &c, mode, 0, "equivalence", false);
        for _ in 0..2 {
            judge_case(ctx, &bin, &dir, &c, mode, r.next() % (144 * 8 * 3), "equivalence", false);
        }
    }
    // ---- defaults: documents written with names harvested from the option defaults;
    // no target option, explicit far-future current time
    {
        let text = "<!-- <removal-marker name=\"vec![]\"> -->\na\n<!-- </removal-marker> -->\n<!-- <removal-marker name=\"\"> -->\nb\n<!-- </removal-marker> -->\n<!-- <time-limited to=\"2000-01-01 00:00:00\"> -->\nc\n<!-- </time-limited> -->\n<!-- <time-limited to=\"2999-01-01 00:00:00\"> -->\nd\n<!-- </time-limited> -->\n";
        let c = Case {
            text: text.to_string(),
            sp: Sp::new("<!-- <", "> -->", "time-limited", "removal-marker"),
            cfg: Cfg::new("2020-06-15T12:00:00+00:00", "+00:00", &[]),
            default_spelling: true,
            passthrough: false,
        };
        for (k, mode) in MODES.iter().enumerate() {
            if k as u64 % n == shard {
                for v in [0u64, 1, 2, 19, 37, 55] {
                    judge_case(ctx, &bin, &dir, &c, *mode, v, "defaults", false);
                }
            }
        }
    }
    // ---- sanitizer leg: a few invocations under valgrind memcheck (thorough tier)
    if !quick {
        for k in 0..4u64 {
            if ctx.out_of_time() {
                break;
            }
            let i = shard * 4 + k;
            let c = gen_case(seed, 1_000_000 + i);
            judge_case(ctx, &bin, &dir, &c, MODES[i as usize % 5], i * 7 % 144, "valgrind", true);
        }
    }
    let _ = std::fs::remove_dir_all(&dir);
    ctx.note("rule", json!("distinct (document, argv, stdin/file, output route, TZ, locale, mode) invocations whose bytes equal the in-process library result for the corresponding configuration, exit status 0"));
}

pub fn replay(ctx: &mut Ctx, v: &Value) -> Result<(), String> {
    let bin = std::env::var("CV_CLI_BIN").map_err(|_| "CV_CLI_BIN not set")?;
    let dir = std::env::var("CV_TMP").unwrap_or_else(|_| "/verif/build/tmp".into());
    let dir = format!("{dir}/c20-replay");
    std::fs::create_dir_all(&dir).map_err(|e| e.to_string())?;
    let c = Case {
        text: v.get("text").and_then(|x| x.as_str()).ok_or("no text")?.to_string(),
        sp: Sp::from_json(v.get("sp").ok_or("no sp")?).ok_or("bad sp")?,
        cfg: Cfg::from_json(v.get("cfg").ok_or("no cfg")?).ok_or("bad cfg")?,
        default_spelling: v.get("default_spelling").and_then(|x| x.as_bool()).unwrap_or(false),
        passthrough: v.get("passthrough").and_then(|x| x.as_bool()).unwrap_or(false),
    };
    let mode = match v.get("mode").and_then(|x| x.as_str()).unwrap_or("Clean") {
        "List" => Mode::List,
        "ListJson" => Mode::ListJson,
        "ListAll" => Mode::ListAll,
        "ListAllJson" => Mode::ListAllJson,
        _ => Mode::Clean,
    };
    let variant = v.get("variant").and_then(|x| x.as_u64()).unwrap_or(0);
    judge_case(ctx, &bin, &dir, &c, mode, variant, "replay", false);
    Ok(())
}
