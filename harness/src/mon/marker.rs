//! C06 marker / skip / tag-name decision: exact, case-sensitive membership; empty target set
//! removes nothing (also via the command line with no target option); skip always wins;
//! unregistered tag names are never ready.

use crate::api::{self, call_marker_eval, Cfg, Sp};
use crate::ctx::{Ctx, Tier};
use crate::util::*;
use serde_json::{json, Value};
use std::process::Command;

pub const NAME_POOL: [&str; 20] = [
    "\u{e9}",
    "e\u{301}",
    "a",
    "A",
    "ab",
    "b",
    "",
    "feature1",
    "feature",
    "Feature1",
    "FEATURE1",
    "feature1 ",
    " feature1",
    "feature10",
    "vec![]",
    "[]",
    "日本",
    "日本語",
    "time-limited",
    "*",
];

fn judge_eval(ctx: &mut Ctx, attrs: &[(String, Option<String>)], targets: &[String], want: bool, class: &str) {
    ctx.eval();
    let rp = || json!({"kind": "marker", "attrs": attrs, "targets": targets, "want": want});
    match call_marker_eval(attrs, targets) {
        Err(p) => {
            ctx.panic_site(&p);
            ctx.violation(class, format!("evaluator panicked @ {}", api::short_loc(&p.loc)), rp());
        }
        Ok(got) => {
            if got != want {
                ctx.violation(class, format!("attrs {:?} targets {:?}: ready={} but reference says {}", attrs, targets, got, want), rp());
            } else {
                ctx.nontrivial(hash64(&[format!("{attrs:?}").as_bytes(), format!("{targets:?}").as_bytes()]));
                ctx.count(&format!("{}:{}", class, if got { "ready" } else { "kept" }));
            }
        }
    }
}

fn quote_for(v: &str) -> char {
    if v.contains('"') {
        '\''
    } else {
        '"'
    }
}

/// Probe document through clean. `tag_name` is the name written in the tag; `attrs` rendered in
/// the given order; expectation: removed / unchanged.
#[allow(clippy::too_many_arguments)]
fn judge_doc(ctx: &mut Ctx, sp: &Sp, tag_name: &str, attrs: &[(String, Option<String>)], cfg: &Cfg, want: bool, class: &str, sep: &str) {
    let mut body = tag_name.to_string();
    for (n, v) in attrs {
        body.push_str(sep);
        match v {
            None => body.push_str(n),
            Some(v) => {
                let q = quote_for(v);
                body.push_str(&format!("{n}={q}{v}{q}"));
            }
        }
    }
    if crate::refmodel::rtag(&body).is_none() {
        ctx.skip("probe tag outside grammar (harness self-check)");
        return;
    }
    let text = format!("a();\n{}{}{}\nb();\n{}/{}{}\nc();\n", sp.ds, body, sp.de, sp.ds, tag_name, sp.de);
    if crate::judge::recognition_in_dispute(&text, sp) || crate::refmodel::rscan(&text, &sp.ds, &sp.de).iter().filter(|t| t.2).count() != 2 {
        ctx.skip("probe: recognition in dispute / value changes tag structure");
        return;
    }
    ctx.eval();
    let rp = || json!({"kind": "marker-doc", "text": text, "sp": sp.json(), "cfg": cfg.json(), "want": want});
    match api::call_clean(&text, sp, cfg) {
        Err(p) => {
            ctx.panic_site(&p);
            ctx.violation(class, format!("clean panicked @ {}", api::short_loc(&p.loc)), rp());
        }
        Ok((out, ev)) => {
            ctx.count_n("events:Decision", ev.iter().filter(|e| matches!(e, api::Event::Decision { .. })).count() as u64);
            let removed = nonws(&out) == "a();c();";
            let kept = out == text;
            if (want && removed) || (!want && kept) {
                ctx.nontrivial(hash64(&[text.as_bytes(), format!("{:?}", cfg.targets).as_bytes()]));
                ctx.count(&format!("{}:{}", class, if want { "doc-removed" } else { "doc-kept" }));
                if ctx.sample_due() {
                    ctx.sample(|| json!({"class": class, "input": text, "targets": cfg.targets, "output": out}));
                }
            } else {
                ctx.violation(
                    class,
                    format!("probe {:?} with targets {:?}: output {:?}, expected {}", trunc(&text, 160), cfg.targets, trunc(&out, 120), if want { "element removed" } else { "unchanged" }),
                    rp(),
                );
            }
        }
    }
}

fn permutations(n: usize) -> Vec<Vec<usize>> {
    fn go(cur: &mut Vec<usize>, used: &mut Vec<bool>, n: usize, out: &mut Vec<Vec<usize>>) {
        if cur.len() == n {
            out.push(cur.clone());
            return;
        }
        for i in 0..n {
            if !used[i] {
                used[i] = true;
                cur.push(i);
                go(cur, used, n, out);
                cur.pop();
                used[i] = false;
            }
        }
    }
    let mut out = vec![];
    go(&mut vec![], &mut vec![false; n], n, &mut out);
    out
}

/// Strings shown as `[default: …]` in `chiritori --help`.
fn help_defaults(bin: &str) -> Vec<String> {
    let out = Command::new(bin).arg("--help").output();
    let mut v = vec![];
    if let Ok(o) = out {
        let s = String::from_utf8_lossy(&o.stdout).to_string();
        let mut rest = s.as_str();
        while let Some(i) = rest.find("[default: ") {
            let r = &rest[i + 10..];
            // default values may contain ']' (e.g. "vec![]"): take up to the last ']' on the line
            let line_end = r.find('\n').unwrap_or(r.len());
            if let Some(j) = r[..line_end].rfind(']') {
                v.push(r[..j].to_string());
            }
            rest = &r[line_end..];
        }
    }
    v
}

fn cli_leg(ctx: &mut Ctx) {
    let Ok(bin) = std::env::var("CV_CLI_BIN") else {
        ctx.inconclusive("CV_CLI_BIN not set: the command-line leg of C06 could not run");
        return;
    };
    let mut names: Vec<String> = help_defaults(&bin);
    ctx.note("help_defaults", json!(names));
    names.extend(NAME_POOL.iter().map(|s| s.to_string()));
    names.push("vec![]".to_string());
    names.sort();
    names.dedup();
    let dir = std::env::var("CV_TMP").unwrap_or_else(|_| "/verif/build/tmp".into());
    let dir = format!("{dir}/c06-{}", ctx.shard);
    let _ = std::fs::create_dir_all(&dir);
    let quick = ctx.tier == Tier::Quick;
    let reps = if quick { 1 } else { 6 };
    for rep in 0..reps {
        for (k, name) in names.iter().enumerate() {
            if name.contains('"') && name.contains('\'') {
                continue;
            }
            let q = quote_for(name);
            let pad = if rep % 2 == 0 { "" } else { " " };
            let text = format!("a();\n<!-- <{pad}removal-marker name={q}{name}{q}{pad}> -->\nb{k}();\n<!-- </removal-marker> -->\nc();\n");
            let path = format!("{dir}/in{k}.txt");
            if std::fs::write(&path, &text).is_err() {
                ctx.inconclusive("cannot write probe file");
                return;
            }
            ctx.eval();
            // no target option at all: nothing may be removed
            let modes: Vec<Vec<String>> = vec![
                vec![],
                vec!["--time-limited-current".into(), "2999-01-01T00:00:00+00:00".into()],
                vec!["--removal-marker-target-name".into(), format!("{name}x")],
            ];
            let args = &modes[(rep as usize + k) % modes.len()];
            let out = Command::new(&bin).arg("--filename").arg(&path).args(args).output();
            let rp = json!({"kind": "marker-cli", "text": text, "args": args});
            match out {
                Err(e) => ctx.inconclusive(&format!("cannot run binary: {e}")),
                Ok(o) => {
                    let so = String::from_utf8_lossy(&o.stdout).to_string();
                    if !o.status.success() {
                        ctx.violation("cli-no-target", format!("binary exited with {:?}: {}", o.status.code(), trunc(&String::from_utf8_lossy(&o.stderr), 200)), rp);
                    } else if so != text {
                        ctx.violation(
                            "cli-no-target",
                            format!("marker named {:?} removed although its name is not a target (args {:?}): {:?}", name, args, trunc(&so, 120)),
                            rp,
                        );
                    } else {
                        ctx.nontrivial(hash64(&[text.as_bytes(), format!("{args:?}").as_bytes()]));
                        ctx.count("cli-no-target:kept");
                    }
                }
            }
        }
    }
    // ---- exact whole-string membership through the binary: the target is the argument as given
    // (no splitting at commas or blanks, no trimming, no case folding), by flag and by config file
    let members: Vec<String> = ["a", "feature1", "a,b", "feature1,feature", ",", "a b", "日本", "A"].iter().map(|s| s.to_string()).collect();
    for (k, m) in members.iter().enumerate() {
        let variants: Vec<String> = vec![m.clone(), format!("{m},zz"), format!("zz,{m}"), format!("{m},"), format!("{m} "), m.to_uppercase() + "_", format!("{m},{m}")];
        for (j, t) in variants.iter().enumerate() {
            if t.is_empty() {
                continue;
            }
            let want_removed = t == m;
            let text = format!("a();\n<!-- <removal-marker name=\"{m}\"> -->\nb{k}();\n<!-- </removal-marker> -->\nc();\n");
            let path = format!("{dir}/mem{k}-{j}.txt");
            let cfgp = format!("{dir}/mem{k}-{j}.targets");
            if std::fs::write(&path, &text).is_err() || std::fs::write(&cfgp, format!("{t}\n")).is_err() {
                ctx.inconclusive("cannot write probe file");
                return;
            }
            for via_file in [false, true] {
                // a config file line cannot carry a trailing blank / be told from a trimmed one reliably
                if via_file && t.ends_with(' ') {
                    continue;
                }
                ctx.eval();
                let args: Vec<String> = if via_file { vec![format!("--removal-marker-target-config={cfgp}")] } else { vec![format!("--removal-marker-target-name={t}")] };
                let out = Command::new(&bin).arg("--filename").arg(&path).args(&args).output();
                let rp = json!({"kind": "marker-cli", "text": text, "args": args, "want_removed": want_removed, "target_file": if via_file { Some(format!("{t}\n")) } else { None }});
                match out {
                    Err(e) => ctx.inconclusive(&format!("cannot run binary: {e}")),
                    Ok(o) => {
                        let so = String::from_utf8_lossy(&o.stdout).to_string();
                        let ok = if want_removed { nonws(&so) == "a();c();" } else { so == text };
                        if !o.status.success() {
                            ctx.violation("cli-membership", format!("binary exited with {:?}: {}", o.status.code(), trunc(&String::from_utf8_lossy(&o.stderr), 200)), rp);
                        } else if !ok {
                            ctx.violation(
                                "cli-membership",
                                format!("marker named {:?} with target argument {:?} ({}): expected {}, got {:?}", m, t, if via_file { "config file" } else { "flag" }, if want_removed { "removed" } else { "kept" }, trunc(&so, 120)),
                                rp,
                            );
                        } else {
                            ctx.nontrivial(hash64(&[text.as_bytes(), format!("{args:?}").as_bytes()]));
                            ctx.count(if want_removed { "cli-membership:removed" } else { "cli-membership:kept" });
                        }
                    }
                }
            }
        }
    }
    let _ = std::fs::remove_dir_all(&dir);
}

pub fn run(ctx: &mut Ctx) {
    let quick = ctx.tier == Tier::Quick;
    ctx.set_budget_secs(if quick { 20 } else { 200 });
    let (seed, shard, n) = (ctx.seed, ctx.shard, ctx.nshards);
    let pool: Vec<String> = NAME_POOL.iter().map(|s| s.to_string()).collect();
    // ---- all target sets of size 0..3 x all marker names: direct evaluator
    let mut sets: Vec<Vec<String>> = vec![vec![]];
    for i in 0..pool.len() {
        sets.push(vec![pool[i].clone()]);
        for j in i + 1..pool.len() {
            sets.push(vec![pool[i].clone(), pool[j].clone()]);
            for k in j + 1..pool.len() {
                sets.push(vec![pool[i].clone(), pool[j].clone(), pool[k].clone()]);
            }
        }
    }
    ctx.note("target_sets", json!(sets.len()));
    let mut rank: u64 = 0;
    for set in &sets {
        for name in &pool {
            rank += 1;
            if rank % n != shard {
                continue;
            }
            let want = set.iter().any(|t| t == name);
            judge_eval(ctx, &[("name".to_string(), Some(name.clone()))], set, want, "membership");
        }
        rank += 1;
        if rank % n == shard {
            // valueless / missing name attribute, other attributes holding a target string
            judge_eval(ctx, &[("name".to_string(), None)], set, false, "valueless-name");
            judge_eval(ctx, &[], set, false, "missing-name");
            if let Some(t) = set.first() {
                judge_eval(ctx, &[("id".to_string(), Some(t.clone())), ("Name".to_string(), Some(t.clone()))], set, false, "other-attribute");
            }
        }
    }
    // ---- probe documents: attribute orders x skip x comment values x tag-name configurations
    let sps = [
        Sp::new("<!-- <", "> -->", "time-limited", "removal-marker"),
        Sp::new("<", ">", "tl", "m"),
        Sp::new("/* <", "> */", "removal-marker", "time-limited"), // swapped names
        Sp::new("[[", "]]", "期限", "印"),
        Sp::new("<", ">", "mark", "marker"), // one configured name is a prefix of the other
    ];
    let cfgs = [
        Cfg::new("2020-06-15T12:00:00+00:00", "+00:00", &["feature1", "ab"]),
        Cfg::new("2020-06-15T12:00:00+00:00", "+00:00", &[]),
        Cfg::new("2020-06-15T12:00:00+00:00", "+00:00", &["Feature1", "a", ""]),
    ];
    let mut rank: u64 = 0;
    for sp in &sps {
        for cfg in &cfgs {
            for name in ["feature1", "Feature1", "feature", "feature10", "ab", "a", "", "b"] {
                let member = cfg.targets.iter().any(|t| t == name);
                for with_skip in [false, true] {
                    for comment in [None, Some("skip"), Some("please skip this"), Some("name='feature1'"), Some("don't skip yet"), Some("say \"skip\" now")] {
                        let mut attrs: Vec<(String, Option<String>)> = vec![("name".into(), Some(name.to_string()))];
                        if with_skip {
                            // a skip attribute is a skip attribute, with or without a value
                            attrs.push(("skip".into(), match rank % 7 { 3 => Some(String::new()), 5 => Some("no".into()), 6 => Some("false".into()), 1 => Some("0".into()), _ => None }));
                        }
                        if let Some(c) = comment {
                            attrs.push(("c".into(), Some(c.to_string())));
                        }
                        attrs.push(("data-x".into(), Some("1".into())));
                        for perm in permutations(attrs.len()) {
                            rank += 1;
                            if rank % n != shard {
                                continue;
                            }
                            if ctx.past(0.7) {
                                break;
                            }
                            let ordered: Vec<(String, Option<String>)> = perm.iter().map(|i| attrs[*i].clone()).collect();
                            let want = member && !with_skip;
                            let sep = if rank % 5 == 0 { "\n  " } else { " " };
                            judge_doc(ctx, sp, &sp.mk, &ordered, cfg, want, if with_skip { "skip" } else { "membership-doc" }, sep);
                        }
                    }
                }
            }
            // time-limited with skip in any position is kept although expired
            for perm in permutations(3) {
                rank += 1;
                if rank % n != shard {
                    continue;
                }
                let attrs: Vec<(String, Option<String>)> = vec![
                    ("to".into(), Some("2000-01-01 00:00:00".into())),
                    ("skip".into(), None),
                    ("c".into(), Some("x".into())),
                ];
                let ordered: Vec<(String, Option<String>)> = perm.iter().map(|i| attrs[*i].clone()).collect();
                judge_doc(ctx, sp, &sp.tl, &ordered, cfg, false, "skip-expired", " ");
            }
            // unregistered tag names: prefixes / superstrings / case variants / closing-like of the
            // registered names are never ready
            let mut unreg: Vec<String> = vec![];
            for base in [&sp.tl, &sp.mk] {
                unreg.push(format!("{base}x"));
                unreg.push(format!("x{base}"));
                unreg.push(base.to_uppercase());
                let cs: Vec<char> = base.chars().collect();
                if cs.len() > 1 {
                    unreg.push(cs[..cs.len() - 1].iter().collect());
                }
            }
            unreg.push("other".into());
            for u in unreg {
                if u == sp.tl || u == sp.mk || u.is_empty() {
                    continue;
                }
                rank += 1;
                if rank % n != shard {
                    continue;
                }
                let attrs: Vec<(String, Option<String>)> = vec![
                    ("to".into(), Some("2000-01-01 00:00:00".into())),
                    ("name".into(), Some(cfg.targets.first().cloned().unwrap_or("feature1".into()))),
                ];
                judge_doc(ctx, sp, &u, &attrs, cfg, false, "unregistered-name", " ");
            }
        }
    }
    // ---- random attribute soups
    let total: u64 = if quick { 600_000 } else { 8_000_000 };
    for i in (shard..total).step_by(n as usize) {
        if ctx.past(0.9) {
            break;
        }
        let mut r = Rng::for_case(seed, 61, i);
        let sp = &sps[r.below(sps.len())];
        let k = r.below(4);
        let targets: Vec<String> = (0..k).map(|_| r.pick(&pool).clone()).collect();
        let name = r.pick(&pool).clone();
        if name.contains('"') && name.contains('\'') {
            continue;
        }
        let mut attrs: Vec<(String, Option<String>)> = vec![("name".into(), Some(name.clone()))];
        let skip = r.chance(1, 4);
        if skip {
            attrs.push(("skip".into(), None));
        }
        if r.chance(1, 3) {
            attrs.push(("c".into(), Some(r.pick(&["skip", "skip it", "unwrap-block", " skip ", "don't skip", "it's name='a' here", "x \"skip\" y"]).to_string())));
        }
        if r.chance(1, 3) {
            attrs.push(("Skip".into(), None));
        }
        if r.chance(1, 3) {
            attrs.push(("skipped".into(), None));
        }
        r.shuffle(&mut attrs);
        let want = targets.iter().any(|t| *t == name) && !skip;
        let cfg = Cfg { now: "2020-06-15T12:00:00+00:00".into(), offset: "+00:00".into(), targets };
        judge_doc(ctx, sp, &sp.mk, &attrs, &cfg, want, "random-doc", " ");
    }
    // ---- Decision events in full documents
    super::decision_stage(ctx, "C06", 62, if quick { 200_000 } else { 4_000_000 }, 0.95);
    // ---- the binary with no target option (shard 0 only: a few hundred process runs)
    if shard == 0 {
        cli_leg(ctx);
    }
    ctx.note("rule", json!("distinct (attributes, target set) / probe documents / binary invocations whose observed decision equals exact case-sensitive membership AND no bare skip attribute"));
}

pub fn replay(ctx: &mut Ctx, v: &Value) -> Result<(), String> {
    match v.get("kind").and_then(|k| k.as_str()) {
        Some("marker") => {
            let attrs: Vec<(String, Option<String>)> = v
                .get("attrs")
                .and_then(|x| x.as_array())
                .ok_or("no attrs")?
                .iter()
                .filter_map(|p| {
                    let a = p.as_array()?;
                    Some((a.first()?.as_str()?.to_string(), a.get(1)?.as_str().map(|s| s.to_string())))
                })
                .collect();
            let targets: Vec<String> = v.get("targets").and_then(|x| x.as_array()).ok_or("no targets")?.iter().filter_map(|x| x.as_str().map(|s| s.to_string())).collect();
            judge_eval(ctx, &attrs, &targets, v.get("want").and_then(|x| x.as_bool()).ok_or("no want")?, "replay");
            Ok(())
        }
        Some("marker-doc") => {
            let text = v.get("text").and_then(|x| x.as_str()).ok_or("no text")?;
            let sp = Sp::from_json(v.get("sp").ok_or("no sp")?).ok_or("bad sp")?;
            let cfg = Cfg::from_json(v.get("cfg").ok_or("no cfg")?).ok_or("bad cfg")?;
            let want = v.get("want").and_then(|x| x.as_bool()).ok_or("no want")?;
            ctx.eval();
            match api::call_clean(text, &sp, &cfg) {
                Err(p) => ctx.violation("replay", format!("clean panicked @ {}", api::short_loc(&p.loc)), v.clone()),
                Ok((out, _)) => {
                    if (want && nonws(&out) == "a();c();") || (!want && out == text) {
                        ctx.nontrivial(hash_str(text));
                    } else {
                        ctx.violation("replay", format!("probe output {:?}, expected {}", trunc(&out, 120), if want { "removed" } else { "unchanged" }), v.clone());
                    }
                }
            }
            Ok(())
        }
        Some("marker-cli") => {
            let Ok(bin) = std::env::var("CV_CLI_BIN") else { return Err("CV_CLI_BIN not set".into()) };
            let text = v.get("text").and_then(|x| x.as_str()).ok_or("no text")?;
            let args: Vec<String> = v.get("args").and_then(|x| x.as_array()).ok_or("no args")?.iter().filter_map(|x| x.as_str().map(|s| s.to_string())).collect();
            let dir = std::env::var("CV_TMP").unwrap_or_else(|_| "/verif/build/tmp".into());
            let _ = std::fs::create_dir_all(&dir);
            let path = format!("{dir}/c06-replay.txt");
            std::fs::write(&path, text).map_err(|e| e.to_string())?;
            ctx.eval();
            let mut args = args;
            if let Some(tf) = v.get("target_file").and_then(|x| x.as_str()) {
                let cfgp = format!("{dir}/c06-replay.targets");
                std::fs::write(&cfgp, tf).map_err(|e| e.to_string())?;
                args = vec![format!("--removal-marker-target-config={cfgp}")];
            }
            let o = Command::new(&bin).arg("--filename").arg(&path).args(&args).output().map_err(|e| e.to_string())?;
            let so = String::from_utf8_lossy(&o.stdout).to_string();
            if v.get("want_removed").and_then(|x| x.as_bool()) == Some(true) {
                if nonws(&so) != "a();c();" {
                    ctx.violation("replay", format!("targeted marker not removed: {:?}", trunc(&so, 120)), v.clone());
                } else {
                    ctx.nontrivial(hash_str(text));
                }
            } else if so != text {
                ctx.violation("replay", format!("marker removed without being targeted: {:?}", trunc(&so, 120)), v.clone());
            } else {
                ctx.nontrivial(hash_str(text));
            }
            Ok(())
        }
        _ => Err("bad kind".into()),
    }
}
