//! C19 cleaning is idempotent and composes over time (property of histories of runs).

use crate::api::{self, Sp};
use crate::ctx::{Ctx, Tier};
use crate::doc::*;
use crate::gen::{self, *};
use crate::judge::recognition_in_dispute;
use crate::oracle::*;
use crate::util::*;
use serde_json::{json, Value};

/// All non-decreasing chains of configuration steps of length 1..=4 over steps 1..=4.
pub fn chains() -> Vec<Vec<u8>> {
    let mut out = vec![];
    fn go(cur: &mut Vec<u8>, out: &mut Vec<Vec<u8>>) {
        if !cur.is_empty() {
            out.push(cur.clone());
        }
        if cur.len() == 4 {
            return;
        }
        let lo = cur.last().copied().unwrap_or(1);
        for s in lo..=4 {
            cur.push(s);
            go(cur, out);
            cur.pop();
        }
    }
    go(&mut vec![], &mut out);
    out
}

thread_local! {
    /// Some((binary, scratch dir)) while histories are run through the real binary: every run is
    /// `chiritori --filename=F --output=F` (the periodic job rewriting the file in place), targets
    /// split between a config file and flags.
    static VIA_CLI: std::cell::RefCell<Option<(String, String)>> = const { std::cell::RefCell::new(None) };
}

fn clean_at(text: &str, sp: &Sp, step: u8) -> Result<String, String> {
    // the clock reading varies from run to run within the same step (fractional seconds, other zone)
    let cfg = step_cfg_var(step, hash_str(text));
    if let Some((bin, dir)) = VIA_CLI.with(|v| v.borrow().clone()) {
        // variant: file in, in place out; targets by flags / file / both, rotating with the text
        let variant = 4 + 6 * (hash_str(text) % 3);
        return match super::cli::clean_via_cli(&bin, &dir, "h", text, sp, &cfg, variant) {
            Ok(o) => Ok(o),
            Err(super::cli::CliErr::Bad(m)) => Err(format!("[through the binary] {m}")),
            Err(super::cli::CliErr::Env(m)) => Err(format!("ENV: {m}")),
        };
    }
    api::call_clean(text, sp, &cfg)
        .map(|(o, _)| o)
        .map_err(|p| format!("clean panicked: {} @ {}", trunc(&p.msg, 60), api::short_loc(&p.loc)))
}

fn judge_history(ctx: &mut Ctx, rd: &Rendered, sp: &Sp, chain: &[u8], gen_name: &str, full: bool) {
    let last = *chain.last().unwrap();
    let via_cli = VIA_CLI.with(|v| v.borrow().is_some());
    ctx.before_exec(|| json!({"kind": "hist", "doc": rd.json(), "sp": sp.json(), "chain": chain, "via_cli": via_cli}));
    ctx.eval();
    ctx.count(&format!("gen:{gen_name}"));
    let rp = || json!({"kind": "hist", "doc": rd.json(), "sp": sp.json(), "chain": chain, "via_cli": via_cli});
    let mut log: Vec<Value> = vec![];
    let mut x = rd.text.clone();
    for s in chain {
        match clean_at(&x, sp, *s) {
            Ok(o) => {
                log.push(json!({"step": s, "in_hash": format!("{:016x}", hash_str(&x)), "out_hash": format!("{:016x}", hash_str(&o))}));
                x = o;
            }
            Err(m) if m.starts_with("ENV: ") => {
                ctx.inconclusive(&m);
                return;
            }
            Err(m) => {
                ctx.violation(gen_name, format!("{m} in step {s} of chain {:?}", chain), rp());
                return;
            }
        }
    }
    ctx.count_n("history-events", log.len() as u64);
    // idempotence of the last configuration on the stepwise result
    match clean_at(&x, sp, last) {
        Ok(again) => {
            if again != x {
                ctx.violation(
                    gen_name,
                    format!("not idempotent: cleaning the result of chain {:?} again at step {} changes it: {:?} => {:?}", chain, last, trunc(&x, 300), trunc(&again, 300)),
                    rp(),
                );
                return;
            }
        }
        Err(m) if m.starts_with("ENV: ") => {
            ctx.inconclusive(&m);
            return;
        }
        Err(m) => {
            ctx.violation(gen_name, m, rp());
            return;
        }
    }
    // composition: stepwise == direct up to whitespace
    let direct = match clean_at(&rd.text, sp, last) {
        Ok(o) => o,
        Err(m) if m.starts_with("ENV: ") => {
            ctx.inconclusive(&m);
            return;
        }
        Err(m) => {
            ctx.violation(gen_name, m, rp());
            return;
        }
    };
    if nonws(&x) != nonws(&direct) {
        ctx.violation(
            gen_name,
            format!(
                "stepwise cleaning along {:?} differs from cleaning once at step {} beyond whitespace: stepwise {:?} direct {:?} (source {:?})",
                chain, last, trunc(&x, 300), trunc(&direct, 300), trunc(&rd.text, 300)
            ),
            rp(),
        );
        return;
    }
    // no tag of an element ready under the final configuration is stranded: the stepwise result
    // must be (input minus extents at `last`) up to whitespace
    if let (true, Some(ext)) = (full, extents(rd, last)) {
        let rr = minus(&rd.text, &ext);
        if nonws(&rr) != nonws(&x) {
            ctx.violation(
                gen_name,
                format!("after chain {:?} text of an element ready at step {} is left behind (or extra text lost): {:?}", chain, last, trunc(&x, 300)),
                rp(),
            );
            return;
        }
    }
    let removed_something = x != rd.text;
    if removed_something && chain.len() > 1 {
        ctx.nontrivial(hash64(&[rd.text.as_bytes(), chain]));
        ctx.count(&format!("chain-len:{}", chain.len()));
        if x != direct {
            ctx.count("stepwise-differs-in-whitespace-only");
        }
    } else if removed_something {
        ctx.nontrivial(hash64(&[rd.text.as_bytes(), chain]));
        ctx.count("chain-len:1");
    }
    if chain.len() >= 3 && removed_something && ctx.sample_due() {
        ctx.sample(|| json!({"source": trunc(&rd.text, 400), "chain": chain, "history": log, "final": trunc(&x, 300)}));
    }
}

/// Ok(true): fully specified geometry (all three tests apply); Ok(false): some unwrap tag shares
/// its line with an inline element, so the unwrap extent is unspecified and only the relational
/// tests (idempotence, stepwise == direct) apply.
fn eligible(rd: &Rendered, sp: &Sp) -> Result<bool, &'static str> {
    if recognition_in_dispute(&rd.text, sp) {
        return Err("tag recognition in dispute on this rendering (KF-C08)");
    }
    if !crate::judge::spans_consistent(rd, sp) {
        return Err("delimiter strings occur outside tags");
    }
    // unwrap elements in unspecified geometry: relational tests only
    let mut relational_only = false;
    for e in rd.elems.iter().filter(|e| e.unwrap && e.registered() && !e.skip && e.level <= 4) {
        if unwrap_geom(&rd.text, e) == UnwrapGeom::NonCanonical {
            relational_only = true;
            continue;
        }
        if tag_on_wrapper_line(rd, e) {
            return Err("a tag sits on a wrapper line of an unwrap-block (outside the C19 space)");
        }
        // wrapper lines must be code: a blank wrapper line can be eaten by the blank-line
        // tidying of an earlier run, after which "the line after the opening tag" is another line
        if let Some(u) = unwrap_parts(&rd.text, e) {
            let w1 = &rd.text[line_start(&rd.text, u.head.1)..u.head.1];
            let w2 = &rd.text[u.tail.0..line_end(&rd.text, u.tail.0)];
            if blank(w1) || blank(w2) {
                return Err("unwrap-block with a blank wrapper line");
            }
        }
    }
    Ok(!relational_only)
}

pub fn run(ctx: &mut Ctx) {
    let quick = ctx.tier == Tier::Quick;
    ctx.set_budget_secs(if quick { 22 } else { 300 });
    let (seed, shard, n) = (ctx.seed, ctx.shard, ctx.nshards);
    let all = chains();
    ctx.note("chains", json!(all.len()));
    // the periodic job as it is really run: the same histories through the binary, rewriting the
    // file in place, target names split between a config file and flags
    {
        let bin = std::env::var("CV_CLI_BIN").unwrap_or_default();
        if !bin.is_empty() && std::path::Path::new(&bin).exists() {
            let dir = format!("{}/c19-{shard}", std::env::var("CV_TMP").unwrap_or_else(|_| "/verif/build/tmp".into()));
            if std::fs::create_dir_all(&dir).is_ok() {
                VIA_CLI.with(|v| *v.borrow_mut() = Some((bin.clone(), dir.clone())));
                let t_end = if quick { 0.30 } else { 0.12 };
                for i in (shard..40_000u64).step_by(n as usize) {
                    if ctx.past(t_end) {
                        break;
                    }
                    let mut r = Rng::for_case(seed, 104, i);
                    let sp = if i % 2 == 0 { Sp::new("<!-- <", "> -->", "time-limited", "removal-marker") } else { default_sp() };
                    let mut gc = GenCfg::block(*r.pick(&UNITS));
                    gc.words = gen::words_for(&[&sp]);
                    gc.allow_inline = i % 4 == 0;
                    gc.max_depth = 3;
                    gc.holds_of_10 = 5;
                    let mut d = gen_block_doc(&mut r, &gc);
                    spread_levels(&mut d, &mut r);
                    let rd = render(&d, &sp);
                    if let Ok(full) = eligible(&rd, &sp) {
                        let c = &all[r.below(all.len())];
                        judge_history(ctx, &rd, &sp, c, "through-the-binary", full);
                    }
                }
                VIA_CLI.with(|v| *v.borrow_mut() = None);
                let _ = std::fs::remove_dir_all(&dir);
            }
        } else {
            ctx.count("cli-leg-unavailable (CV_CLI_BIN not built)");
        }
    }
    let total: u64 = if quick { 40_000 } else { 800_000 };
    for i in (shard..total).step_by(n as usize) {
        if ctx.out_of_time() {
            break;
        }
        let mut r = Rng::for_case(seed, 101, i);
        let sp = match i % 5 {
            0 => default_sp(),
            1 => Sp::new("<!-- <", "> -->", "time-limited", "removal-marker"),
            2 => short_sp(),
            3 => Sp::new("// --", "-- //", "tl", "m"),
            _ => Sp::new("«", "»", "期限", "印"),
        };
        let mut gc = GenCfg::block(*r.pick(&UNITS));
        gc.words = gen::words_for(&[&sp]);
        gc.allow_inline = i % 4 == 0;
        gc.max_depth = 4;
        gc.holds_of_10 = 5;
        gc.tagline_tags = i % 5 == 4;
        let mut d = gen_block_doc(&mut r, &gc);
        spread_levels(&mut d, &mut r);
        // multi-line tags, but not together with inline elements on unwrap tag lines (a multi-line
        // inline tag there would spill onto the wrapper line)
        let rd = render_with(&d, &sp, i % 4 == 1 && !gc.tagline_tags);
        let full = match eligible(&rd, &sp) {
            Ok(f) => f,
            Err(why) => {
                ctx.skip(why);
                continue;
            }
        };
        let gname = if full { "ast" } else { "ast-tagline-inline(relational only)" };
        if quick {
            // a third of the chains per document in the quick tier, rotating
            for (k, c) in all.iter().enumerate() {
                if (k as u64 + i) % 3 == 0 {
                    judge_history(ctx, &rd, &sp, c, gname, full);
                }
            }
        } else {
            for c in &all {
                judge_history(ctx, &rd, &sp, c, gname, full);
            }
        }
    }
    // unwrap layouts: bodies that become short after earlier runs
    let reps = if quick { 4 } else { 40 };
    for rank in (shard..UnwrapParams::count() * reps).step_by(n as usize) {
        if ctx.out_of_time() {
            break;
        }
        let p = UnwrapParams::from_rank(rank % UnwrapParams::count());
        let mut r = Rng::for_case(seed, 102, rank);
        let mut d = unwrap_doc(&p, &mut r, 1 + (rank % 3) as usize, true);
        spread_levels(&mut d, &mut r);
        let sp = default_sp();
        let rd = render(&d, &sp);
        let full = match eligible(&rd, &sp) {
            Ok(f) => f,
            Err(why) => {
                ctx.skip(why);
                continue;
            }
        };
        for c in [vec![1u8, 2], vec![1, 2, 3, 4], vec![2, 4], vec![1, 4], vec![3, 3]] {
            judge_history(ctx, &rd, &sp, &c, "unwrap-layouts", full);
        }
    }
    // very deep nesting of unwrap-blocks and default elements expiring at different steps
    if shard < 4 {
        let k = [40usize, 127, 140, 400][shard as usize];
        for unwrap in [true, false] {
            let sp = short_sp();
            let mut inner = vec![text("\n  core();\n")];
            for d in 0..k {
                let lvl = 1 + (d % 4) as u8;
                inner = if unwrap {
                    let mut ch = vec![text("\nif (c) {")];
                    ch.extend(inner);
                    ch.push(text("}\n"));
                    vec![text("\n"), elem(Kind::Mk, lvl, false, true, 2000 + d as u64, ch), text("\n")]
                } else {
                    vec![text("\n"), elem(Kind::Tl, if d == 0 { 1 } else { 5 }, false, false, 3000 + d as u64, inner), text("\n")]
                };
            }
            let rd = render(&inner, &sp);
            match eligible(&rd, &sp) {
                Ok(full) => {
                    for c in [vec![1u8, 2, 3, 4], vec![4], vec![2, 4], vec![4, 4]] {
                        judge_history(ctx, &rd, &sp, &c, "deep-nest", full);
                    }
                }
                Err(why) => ctx.skip(why),
            }
        }
    }
    // big documents (many removals per run, deep nesting, long lines)
    let total_big: u64 = if quick { 160 } else { 4_000 };
    for i in (shard..total_big).step_by(n as usize) {
        if ctx.past(0.9) {
            break;
        }
        let mut r = Rng::for_case(seed, 103, i);
        let sp = default_sp();
        let mut d = gen_big_doc(&mut r, &sp, i % 2 == 0, true);
        spread_levels(&mut d, &mut r);
        let rd = render(&d, &sp);
        match eligible(&rd, &sp) {
            Ok(full) => {
                for c in [vec![1u8, 2, 3, 4], vec![2, 3], vec![1, 4], vec![3, 3, 4]] {
                    judge_history(ctx, &rd, &sp, &c, "ast-big", full);
                }
            }
            Err(why) => ctx.skip(why),
        }
    }
    // bounded-exhaustive line sequences: default elements ready from step 1, unwrap-blocks from step 2
    super::docs::lineseq_stage(ctx, if quick { 6 } else { 8 }, 0.99, true, |ctx, rd, sp| {
        match eligible(rd, sp) {
            Ok(full) => {
                for c in [vec![1u8, 2], vec![2, 2], vec![1, 1, 2]] {
                    judge_history(ctx, rd, sp, &c, "lineseq", full);
                }
            }
            Err(why) => ctx.skip(why),
        }
    });
    ctx.note("rule", json!("distinct (source, chain of configuration steps) in which at least one step removed something; idempotence byte-for-byte, stepwise vs direct up to whitespace, nothing stranded"));
}

/// Spread the levels of the elements over 1..=5 so that different steps make different
/// elements ready.
fn spread_levels(ps: &mut [Piece], r: &mut Rng) {
    for p in ps.iter_mut() {
        if let Piece::Elem(e) = p {
            e.level = 1 + r.below(5) as u8;
            spread_levels(&mut e.children, r);
        }
    }
}

pub fn replay(ctx: &mut Ctx, v: &Value) -> Result<(), String> {
    let rd = Rendered::from_json(v.get("doc").ok_or("no doc")?).ok_or("bad doc")?;
    let sp = Sp::from_json(v.get("sp").ok_or("no sp")?).ok_or("bad sp")?;
    let chain: Vec<u8> = v.get("chain").and_then(|x| x.as_array()).ok_or("no chain")?.iter().filter_map(|x| x.as_u64().map(|x| x as u8)).collect();
    if chain.is_empty() {
        return Err("empty chain".into());
    }
    let full = eligible(&rd, &sp).unwrap_or(false);
    if v.get("via_cli").and_then(|x| x.as_bool()) == Some(true) {
        let bin = std::env::var("CV_CLI_BIN").map_err(|_| "CV_CLI_BIN not set")?;
        let dir = format!("{}/c19-replay", std::env::var("CV_TMP").unwrap_or_else(|_| "/verif/build/tmp".into()));
        std::fs::create_dir_all(&dir).map_err(|e| e.to_string())?;
        VIA_CLI.with(|c| *c.borrow_mut() = Some((bin, dir)));
    }
    judge_history(ctx, &rd, &sp, &chain, "replay", full);
    VIA_CLI.with(|c| *c.borrow_mut() = None);
    Ok(())
}
