//! C05 expiry decision: ready exactly when now >= `to` at the configured offset; malformed
//! values / offsets never ready; removed set grows with time.

use crate::api::{self, call_time_eval, Cfg, Sp};
use crate::ctx::{Ctx, Tier};
use crate::refmodel::*;
use crate::util::*;
use serde_json::{json, Value};

/// Malformed `to` classes enumerated by the property (each must never be ready).
pub fn malformed_values() -> Vec<(&'static str, &'static str)> {
    vec![
        ("slash separators", "2000/01/01 00:00:00"),
        ("T separator", "2000-01-01T00:00:00"),
        ("dot separators", "2000.01.01 00:00:00"),
        ("dots in time", "2000-01-01 00.00.00"),
        ("date only", "2000-01-01"),
        ("time only", "00:00:00"),
        ("missing seconds", "2000-01-01 00:00"),
        ("month 00", "2000-00-10 00:00:00"),
        ("month 13", "2000-13-01 00:00:00"),
        ("day 00", "2000-01-00 00:00:00"),
        ("day 32", "2000-01-32 00:00:00"),
        ("30 Feb", "2000-02-30 00:00:00"),
        ("31 Apr", "2000-04-31 00:00:00"),
        ("29 Feb non-leap", "2019-02-29 00:00:00"),
        ("29 Feb 1900", "1900-02-29 00:00:00"),
        ("hour 24", "2000-01-01 24:00:00"),
        ("minute 60", "2000-01-01 00:60:00"),
        ("second 61", "2000-01-01 00:00:61"),
        ("trailing zone +0900", "2000-01-01 00:00:00 +0900"),
        ("trailing zone Z", "2000-01-01 00:00:00Z"),
        ("trailing zone name", "2000-01-01 00:00:00 UTC"),
        ("fractional seconds", "2000-01-01 00:00:00.5"),
        ("empty", ""),
        ("words", "yesterday"),
        ("epoch number", "946684800"),
        ("README slash form", "2024/02/15 12:00:00"),
        ("kanji date", "2024年12月31日 23:59:59"),
        ("full-width digits", "２０００-01-01 00:00:00"),
        ("multi-byte words", "来週の金曜日まで"),
    ]
}

pub const GARBAGE_OFFSETS: [&str; 9] = ["", "JST", "+", "-", "abc", "+25:00", "+09:60", "+9:00:00:00", "UTC+9"];

fn judge_eval(ctx: &mut Ctx, to: Option<Option<&str>>, offset: &str, now: &str, want: bool, class: &str) {
    ctx.eval();
    let rp = || json!({"kind": "time", "to": to.map(|o| o.map(|s| s.to_string())), "has_to": to.is_some(), "offset": offset, "now": now, "want": want, "class": class});
    match call_time_eval(to, offset, now) {
        Err(p) => {
            ctx.panic_site(&p);
            ctx.violation(class, format!("evaluator panicked: {} @ {}", trunc(&p.msg, 80), api::short_loc(&p.loc)), rp());
        }
        Ok(got) => {
            if got != want {
                ctx.violation(
                    class,
                    format!("to={:?} offset={:?} now={:?}: ready={} but the reference says {}", to, offset, now, got, want),
                    rp(),
                );
            } else {
                ctx.nontrivial(hash64(&[format!("{to:?}").as_bytes(), offset.as_bytes(), now.as_bytes()]));
                ctx.count(&format!("{}:{}", class, if got { "ready" } else { "kept" }));
            }
        }
    }
}

fn probe_doc(sp: &Sp, tag_body: &str) -> String {
    format!("a();\n{}{}{}\nb();\n{}/{}{}\nc();\n", sp.ds, tag_body, sp.de, sp.ds, sp.tl, sp.de)
}

/// One-element probe through clean: removed (ready) or byte-identical (kept).
fn judge_doc(ctx: &mut Ctx, sp: &Sp, tag_body: &str, cfg: &Cfg, want: bool, class: &str) {
    let text = probe_doc(sp, tag_body);
    ctx.eval();
    let rp = || json!({"kind": "time-doc", "text": text, "sp": sp.json(), "cfg": cfg.json(), "want": want, "class": class});
    match api::call_clean(&text, sp, cfg) {
        Err(p) => {
            ctx.panic_site(&p);
            ctx.violation(class, format!("clean panicked @ {}", api::short_loc(&p.loc)), rp());
        }
        Ok((out, ev)) => {
            let removed = nonws(&out) == "a();c();";
            let kept = out == text;
            let dec = ev.iter().find_map(|e| match e {
                api::Event::Decision { evaluator, .. } => Some(*evaluator),
                _ => None,
            });
            if let Some(d) = dec {
                ctx.count("events:Decision");
                if d != Some(want) {
                    ctx.violation(class, format!("decision event {:?} but reference says {} for {:?}", d, want, tag_body), rp());
                    return;
                }
            }
            if (want && removed) || (!want && kept) {
                ctx.nontrivial(hash64(&[text.as_bytes(), cfg.now.as_bytes(), cfg.offset.as_bytes()]));
                ctx.count(&format!("{}:{}", class, if want { "doc-removed" } else { "doc-kept" }));
                if ctx.sample_due() {
                    ctx.sample(|| json!({"class": class, "input": text, "now": cfg.now, "offset": cfg.offset, "output": out}));
                }
            } else {
                ctx.violation(
                    class,
                    format!("probe {:?} at now={} offset={}: output {:?}, expected {}", tag_body, cfg.now, cfg.offset, trunc(&out, 120), if want { "element removed" } else { "unchanged" }),
                    rp(),
                );
            }
        }
    }
}

pub fn boundary_epochs(thorough: bool) -> Vec<i64> {
    let mut v: Vec<i64> = vec![];
    let c = |s: &str| parse_canonical(s).unwrap().secs();
    for s in [
        "2020-06-15 12:00:00",
        "2020-02-29 23:59:59", // leap day end
        "2020-03-01 00:00:00",
        "2019-02-28 23:59:59", // non-leap Feb end
        "2021-01-01 00:00:00", // year boundary
        "2020-12-31 23:59:59",
        "2024-02-29 00:00:00",
        "2000-02-29 12:30:30", // 400-year leap
        "2021-06-30 23:59:59", // month end
        "2021-07-31 00:00:00",
        "1999-12-31 23:59:59",
    ] {
        v.push(c(s));
    }
    if thorough {
        for y in [1970, 1985, 2001, 2016, 2038, 2100, 2400] {
            for (m, d) in [(1, 1), (2, 28), (3, 1), (4, 30), (12, 31)] {
                v.push(Civil { y, mo: m, d, h: 0, mi: 0, s: 0 }.secs());
                v.push(Civil { y, mo: m, d, h: 23, mi: 59, s: 59 }.secs());
            }
        }
    }
    v
}

/// The configured current instant as the user gives it: through the binary. Boundary probes with
/// sub-second distances to the expiry instant, `now` spelled in several zones, several configured
/// offsets. Ready iff now >= to (as instants); no rounding in either direction.
fn cli_leg(ctx: &mut Ctx) {
    let bin = std::env::var("CV_CLI_BIN").unwrap_or_default();
    if bin.is_empty() || !std::path::Path::new(&bin).exists() {
        ctx.count("cli-leg-unavailable (CV_CLI_BIN not built)");
        return;
    }
    let dir = format!("{}/c05-{}", std::env::var("CV_TMP").unwrap_or_else(|_| "/verif/build/tmp".into()), ctx.shard);
    if std::fs::create_dir_all(&dir).is_err() {
        ctx.inconclusive("cannot create scratch directory");
        return;
    }
    let to_wall = "2020-06-15 12:00:00";
    let text = format!("a();\n<!-- <time-limited to=\"{to_wall}\"> -->\nb();\n<!-- </time-limited> -->\nc();\n");
    let path = format!("{dir}/in.txt");
    if std::fs::write(&path, &text).is_err() {
        ctx.inconclusive("cannot write probe file");
        return;
    }
    let to_utc = parse_rfc3339("2020-06-15T12:00:00+00:00").unwrap();
    // (millisecond distance to the expiry instant, expected ready)
    let deltas: [i64; 13] = [-86_400_000, -1000, -999, -750, -500, -250, -1, 0, 1, 250, 500, 999, 1000];
    for (oi, (off_s, off)) in [("", 0i64), ("+09:00", 32400), ("-03:30", -12600), ("+0545", 20700), ("-1200", -43200)].iter().enumerate() {
        // `to` is a wall-clock time at the configured offset: its instant is to_utc - off
        let expiry_ms = (to_utc - off) * 1000;
        for d in deltas {
            for (zi, zone) in [0i64, 32400, -28800].iter().enumerate() {
                let now_ms = expiry_ms + d;
                let secs = now_ms.div_euclid(1000);
                let ms = now_ms.rem_euclid(1000);
                let z = fmt_rfc3339(secs, *zone);
                let now = if ms == 0 && (oi + zi) % 2 == 0 { z.clone() } else { format!("{}.{:03}{}", &z[..19], ms, &z[19..]) };
                let want = d >= 0;
                let mut args = vec![format!("--filename={path}"), format!("--time-limited-current={now}")];
                if !off_s.is_empty() {
                    args.push(format!("--time-limited-time-offset={off_s}"));
                }
                ctx.eval();
                let rp = json!({"kind": "time-cli", "text": text, "args": args[1..], "want": want});
                match std::process::Command::new(&bin).args(&args).env("TZ", ["UTC", "Asia/Tokyo", "America/Los_Angeles"][zi]).output() {
                    Err(e) => ctx.inconclusive(&format!("cannot run binary: {e}")),
                    Ok(o) => {
                        let so = String::from_utf8_lossy(&o.stdout).to_string();
                        let ok = if want { nonws(&so) == "a();c();" } else { so == text };
                        if !o.status.success() {
                            ctx.violation("cli-boundary", format!("binary exited with {:?} (args {:?}): {}", o.status.code(), &args[1..], trunc(&String::from_utf8_lossy(&o.stderr), 200)), rp);
                        } else if !ok {
                            ctx.violation(
                                "cli-boundary",
                                format!("to={to_wall:?} at offset {:?}, current instant {now:?} ({d} ms {} the expiry instant): expected {}, got {:?}", off_s, if d < 0 { "before" } else { "at/after" }, if want { "removed" } else { "kept" }, trunc(&so, 100)),
                                rp,
                            );
                        } else {
                            ctx.nontrivial(hash64(&[format!("{args:?}").as_bytes()]));
                            ctx.count(if want { "cli-boundary:removed" } else { "cli-boundary:kept" });
                        }
                    }
                }
            }
        }
    }
    let _ = std::fs::remove_dir_all(&dir);
}

pub fn run(ctx: &mut Ctx) {
    let quick = ctx.tier == Tier::Quick;
    ctx.set_budget_secs(if quick { 20 } else { 240 });
    let (seed, shard, n) = (ctx.seed, ctx.shard, ctx.nshards);
    let sp = Sp::new("<!-- <", "> -->", "time-limited", "removal-marker");
    let nows = boundary_epochs(!quick);
    let now_zones: [i64; 4] = [0, 9 * 3600, -8 * 3600, 5 * 3600 + 1800];
    let deltas: Vec<i64> = if quick { (-3..=3).collect() } else { (-3..=3).chain([-60, 60, -3600, 3600, -86400, 86400]).collect() };
    // ---- grid: direct evaluator
    let mut rank: u64 = 0;
    'grid: for now in &nows {
        for off15 in -48..=56 {
            let off = off15 * 900;
            for colon in [true, false] {
                let off_s = fmt_offset(off, colon);
                for d in &deltas {
                    for z in now_zones {
                        rank += 1;
                        if rank % n != shard {
                            continue;
                        }
                        let to_epoch = now + d;
                        let to = Civil::from_secs(to_epoch + off).canonical();
                        let now_s = fmt_rfc3339(*now, z);
                        // reference computed independently from the strings
                        let want = rtime_ready(&to, &off_s, parse_rfc3339(&now_s).unwrap()).unwrap();
                        debug_assert_eq!(want, *d <= 0);
                        judge_eval(ctx, Some(Some(&to)), &off_s, &now_s, want, "grid");
                        if rank % (n * 37) == shard {
                            let cfg = Cfg { now: now_s.clone(), offset: off_s.clone(), targets: vec![] };
                            let q = if rank % 2 == 0 { '"' } else { '\'' };
                            judge_doc(ctx, &sp, &format!("time-limited to={q}{to}{q}"), &cfg, want, "grid-doc");
                        }
                        if ctx.evaluations % 4096 == 0 && ctx.past(0.6) {
                            ctx.count("grid-cut-short");
                            break 'grid;
                        }
                    }
                }
            }
        }
    }
    // ---- current instants with a sub-second part: still before `to` until the second is complete
    let mut rank: u64 = 0;
    for now in &nows {
        for frac in [".5", ".001", ".999", ".000001", ".999999999"] {
            for off in [0i64, 32400, -12600] {
                for d in [-1i64, 0, 1, 2] {
                    rank += 1;
                    if rank % n != shard {
                        continue;
                    }
                    let to = Civil::from_secs(now + d + off).canonical();
                    let base = fmt_rfc3339(*now, 0);
                    let now_s = format!("{}{}{}", &base[..19], frac, &base[19..]);
                    // floor(now) = *now, so ready iff to <= *now, i.e. d <= 0
                    let want = d <= 0;
                    debug_assert_eq!(rtime_ready(&to, &fmt_offset(off, true), parse_rfc3339(&now_s).unwrap()), Some(want));
                    judge_eval(ctx, Some(Some(&to)), &fmt_offset(off, true), &now_s, want, "fractional-now");
                    let cfg = Cfg { now: now_s.clone(), offset: fmt_offset(off, false), targets: vec![] };
                    judge_doc(ctx, &sp, &format!("time-limited to='{to}'"), &cfg, want, "fractional-now-doc");
                }
            }
        }
    }
    // ---- random instants (whole range of years), random offsets on the 15-minute grid
    let total: u64 = if quick { 1_500_000 } else { 30_000_000 };
    for i in (shard..total).step_by(n as usize) {
        if ctx.past(0.8) {
            break;
        }
        let mut r = Rng::for_case(seed, 51, i);
        let now = Civil { y: 1971 + r.below(400) as i64, mo: 1 + r.below(12) as i64, d: 1 + r.below(28) as i64, h: r.below(24) as i64, mi: r.below(60) as i64, s: r.below(60) as i64 }.secs();
        let off = (r.below(105) as i64 - 48) * 900;
        let d = match r.below(4) {
            0 => 0,
            1 => r.below(7) as i64 - 3,
            2 => (r.below(200_000) as i64) - 100_000,
            _ => (r.below(2_000_000_000) as i64) - 1_000_000_000,
        };
        let to_epoch = now + d;
        if to_epoch + off < 0 || Civil::from_secs(to_epoch + off).y > 9999 {
            continue;
        }
        let to = Civil::from_secs(to_epoch + off).canonical();
        let off_s = fmt_offset(off, r.chance(1, 2));
        let now_s = fmt_rfc3339(now, *r.pick(&now_zones));
        let want = d <= 0;
        judge_eval(ctx, Some(Some(&to)), &off_s, &now_s, want, "random");
    }
    // ---- malformed classes: never ready, whatever now / offset
    let far_future = ["2999-12-31T23:59:59+00:00", "2020-06-15T12:00:00+09:00", "9999-01-01T00:00:00-08:00"];
    let mut rank: u64 = 0;
    for (class, v) in malformed_values() {
        for now in far_future {
            for off in ["+00:00", "+0900", "-05:30"] {
                rank += 1;
                if rank % n != shard {
                    continue;
                }
                judge_eval(ctx, Some(Some(v)), off, now, false, &format!("malformed:{class}"));
                let cfg = Cfg { now: now.to_string(), offset: off.to_string(), targets: vec![] };
                judge_doc(ctx, &sp, &format!("time-limited to=\"{v}\""), &cfg, false, &format!("malformed-doc:{class}"));
            }
        }
    }
    for now in far_future {
        rank += 1;
        if rank % n != shard {
            continue;
        }
        judge_eval(ctx, Some(None), "+00:00", now, false, "valueless-to");
        judge_eval(ctx, None, "+00:00", now, false, "missing-to");
        let cfg = Cfg { now: now.to_string(), offset: "+00:00".to_string(), targets: vec![] };
        judge_doc(ctx, &sp, "time-limited to", &cfg, false, "valueless-to-doc");
        judge_doc(ctx, &sp, "time-limited", &cfg, false, "missing-to-doc");
        judge_doc(ctx, &sp, "time-limited until=\"2000-01-01 00:00:00\"", &cfg, false, "missing-to-doc");
        for off in GARBAGE_OFFSETS {
            judge_eval(ctx, Some(Some("2000-01-01 00:00:00")), off, now, false, &format!("garbage-offset:{off}"));
            let cfg = Cfg { now: now.to_string(), offset: off.to_string(), targets: vec![] };
            judge_doc(ctx, &sp, "time-limited to=\"2000-01-01 00:00:00\"", &cfg, false, &format!("garbage-offset-doc:{off}"));
        }
    }
    // ---- the edges of the calendar: years 0000 / 0001 / 9999 and the first / last day a date
    // library can represent, with offsets that push the instant across the edge. Where the value
    // is canonical the reference decides; otherwise the only demand is that a decision is returned
    // (an evaluator that panics on `to - offset` overflow takes the whole run down)
    if shard == 1 % n {
        let edge = [
            "0000-01-01 00:00:00", "0001-01-01 00:00:00", "9999-12-31 23:59:59", "+262142-12-31 23:59:59", "-262143-01-01 00:00:00",
            "262142-12-31 23:59:59", "+262143-01-01 00:00:00", "+10000-01-01 00:00:00", "-0001-12-31 23:59:59", "1969-12-31 23:59:59",
        ];
        for to in edge {
            for off in ["+00:00", "-00:01", "+00:01", "-12:00", "+14:00", "-2359", "+2359"] {
                for now in ["2020-06-15T12:00:00+00:00", "9999-12-31T23:59:59+14:00", "0001-01-01T00:00:00-12:00"] {
                    let now_e = parse_rfc3339(now).unwrap();
                    match rtime_ready(to, off, now_e) {
                        Some(want) => judge_eval(ctx, Some(Some(to)), off, now, want, "calendar-edge"),
                        None => {
                            ctx.eval();
                            match call_time_eval(Some(Some(to)), off, now) {
                                Err(p) => {
                                    ctx.panic_site(&p);
                                    ctx.violation(
                                        "calendar-edge",
                                        format!("evaluator panicked on to={to:?} offset={off:?}: {} @ {}", trunc(&p.msg, 80), api::short_loc(&p.loc)),
                                        json!({"kind": "time", "to": to, "has_to": true, "offset": off, "now": now, "want": false, "class": "calendar-edge-nopanic"}),
                                    );
                                }
                                Ok(_) => ctx.count("calendar-edge:decision returned (value outside the canonical form, verdict not judged)"),
                            }
                        }
                    }
                }
            }
        }
    }
    // ---- Decision events in full documents
    super::decision_stage(ctx, "C05", 53, if quick { 200_000 } else { 4_000_000 }, 0.92);
    // ---- monotonicity: fixed source cleaned at increasing instants
    let total: u64 = if quick { 40_000 } else { 600_000 };
    for i in (shard..total).step_by(n as usize) {
        if ctx.out_of_time() {
            break;
        }
        let mut r = Rng::for_case(seed, 52, i);
        mono_one(ctx, &mut r, &sp);
    }
    // ---- the binary: boundary probes with sub-second distances (one shard: ~200 process runs)
    if shard == 0 {
        cli_leg(ctx);
    }
    ctx.note("rule", json!("distinct (to, offset, now) triples / probe documents / histories / binary invocations whose observed decision equals the reference decision"));
    ctx.note("offsets", json!("-12:00..+14:00 in 15-minute steps, both spellings"));
}

fn mono_one(ctx: &mut Ctx, r: &mut Rng, sp: &Sp) {
    let base = *r.pick(&boundary_epochs(false));
    let off = (r.below(105) as i64 - 48) * 900;
    let off_s = fmt_offset(off, r.chance(1, 2));
    let k = 2 + r.below(5);
    // element i expires at base + e_i
    let exps: Vec<i64> = (0..k).map(|_| r.below(9) as i64 - 4).collect();
    let mut text = String::from("start();\n");
    for (i, e) in exps.iter().enumerate() {
        let to = Civil::from_secs(base + e + off).canonical();
        text.push_str(&format!("{}{} to=\"{}\"{}\nbody{}();\n{}/{}{}\nkeep{}();\n", sp.ds, sp.tl, to, sp.de, i, sp.ds, sp.tl, sp.de, i));
    }
    let times: Vec<i64> = {
        let mut t: Vec<i64> = (0..4).map(|_| r.below(11) as i64 - 5).collect();
        t.sort();
        t
    };
    ctx.eval();
    let rp = json!({"kind": "time-mono", "text": text, "sp": sp.json(), "offset": off_s, "base": base, "times": times, "exps": exps});
    let mut prev: Option<Vec<bool>> = None;
    for t in &times {
        let cfg = Cfg { now: fmt_rfc3339(base + t, *r.pick(&[0, 32400, -18000])), offset: off_s.clone(), targets: vec![] };
        match api::call_clean(&text, sp, &cfg) {
            Err(p) => {
                ctx.panic_site(&p);
                ctx.violation("mono", format!("clean panicked @ {}", api::short_loc(&p.loc)), rp);
                return;
            }
            Ok((out, _)) => {
                let removed: Vec<bool> = (0..k).map(|i| !out.contains(&format!("body{i}();"))).collect();
                let want: Vec<bool> = exps.iter().map(|e| e <= t).collect();
                if removed != want {
                    ctx.violation("mono", format!("at now=base{:+}s removed set {:?}, expected {:?} (expiries base+{:?})", t, removed, want, exps), rp);
                    return;
                }
                if let Some(p) = &prev {
                    if p.iter().zip(removed.iter()).any(|(a, b)| *a && !*b) {
                        ctx.violation("mono", format!("an element removed at an earlier time is kept at now=base{:+}s", t), rp);
                        return;
                    }
                }
                prev = Some(removed);
            }
        }
    }
    ctx.nontrivial(hash64(&[text.as_bytes(), format!("{times:?}").as_bytes()]));
    ctx.count("mono-histories-held");
}

pub fn replay(ctx: &mut Ctx, v: &Value) -> Result<(), String> {
    let s = |k: &str| v.get(k).and_then(|x| x.as_str()).map(|x| x.to_string());
    match v.get("kind").and_then(|k| k.as_str()) {
        Some("time") => {
            let has_to = v.get("has_to").and_then(|x| x.as_bool()).unwrap_or(true);
            let to = s("to");
            let arg: Option<Option<&str>> = if !has_to { None } else { Some(to.as_deref()) };
            if s("class").as_deref() == Some("calendar-edge-nopanic") {
                // only "a decision is returned" was demanded
                ctx.eval();
                match call_time_eval(arg, &s("offset").ok_or("no offset")?, &s("now").ok_or("no now")?) {
                    Err(p) => ctx.violation("replay", format!("evaluator panicked: {} @ {}", trunc(&p.msg, 80), api::short_loc(&p.loc)), v.clone()),
                    Ok(_) => ctx.nontrivial(hash_str(&format!("{to:?}"))),
                }
                return Ok(());
            }
            judge_eval(ctx, arg, &s("offset").ok_or("no offset")?, &s("now").ok_or("no now")?, v.get("want").and_then(|x| x.as_bool()).ok_or("no want")?, "replay");
            Ok(())
        }
        Some("time-doc") => {
            let text = s("text").ok_or("no text")?;
            let sp = Sp::from_json(v.get("sp").ok_or("no sp")?).ok_or("bad sp")?;
            let cfg = Cfg::from_json(v.get("cfg").ok_or("no cfg")?).ok_or("bad cfg")?;
            let want = v.get("want").and_then(|x| x.as_bool()).ok_or("no want")?;
            ctx.eval();
            match api::call_clean(&text, &sp, &cfg) {
                Err(p) => ctx.violation("replay", format!("clean panicked @ {}", api::short_loc(&p.loc)), v.clone()),
                Ok((out, _)) => {
                    if (want && nonws(&out) == "a();c();") || (!want && out == text) {
                        ctx.nontrivial(hash_str(&text));
                    } else {
                        ctx.violation("replay", format!("probe output {:?}, expected {}", trunc(&out, 120), if want { "removed" } else { "unchanged" }), v.clone());
                    }
                }
            }
            Ok(())
        }
        Some("time-cli") => {
            let Ok(bin) = std::env::var("CV_CLI_BIN") else { return Err("CV_CLI_BIN not set".into()) };
            let text = s("text").ok_or("no text")?;
            let want = v.get("want").and_then(|x| x.as_bool()).ok_or("no want")?;
            let args: Vec<String> = v.get("args").and_then(|x| x.as_array()).ok_or("no args")?.iter().filter_map(|x| x.as_str().map(|s| s.to_string())).collect();
            let dir = std::env::var("CV_TMP").unwrap_or_else(|_| "/verif/build/tmp".into());
            let _ = std::fs::create_dir_all(&dir);
            let path = format!("{dir}/c05-replay.txt");
            std::fs::write(&path, &text).map_err(|e| e.to_string())?;
            ctx.eval();
            let o = std::process::Command::new(&bin).arg(format!("--filename={path}")).args(&args).output().map_err(|e| e.to_string())?;
            let so = String::from_utf8_lossy(&o.stdout).to_string();
            if (want && nonws(&so) == "a();c();") || (!want && so == text) {
                ctx.nontrivial(hash_str(&text));
            } else {
                ctx.violation("replay", format!("binary output {:?}, expected {}", trunc(&so, 120), if want { "removed" } else { "unchanged" }), v.clone());
            }
            Ok(())
        }
        Some("time-mono") => {
            let text = s("text").ok_or("no text")?;
            let sp = Sp::from_json(v.get("sp").ok_or("no sp")?).ok_or("bad sp")?;
            let off_s = s("offset").ok_or("no offset")?;
            let base = v.get("base").and_then(|x| x.as_i64()).ok_or("no base")?;
            let times: Vec<i64> = v.get("times").and_then(|x| x.as_array()).ok_or("no times")?.iter().filter_map(|x| x.as_i64()).collect();
            let exps: Vec<i64> = v.get("exps").and_then(|x| x.as_array()).ok_or("no exps")?.iter().filter_map(|x| x.as_i64()).collect();
            ctx.eval();
            let mut prev: Option<Vec<bool>> = None;
            for t in &times {
                let cfg = Cfg { now: fmt_rfc3339(base + t, 0), offset: off_s.clone(), targets: vec![] };
                match api::call_clean(&text, &sp, &cfg) {
                    Err(p) => {
                        ctx.violation("replay", format!("clean panicked @ {}", api::short_loc(&p.loc)), v.clone());
                        return Ok(());
                    }
                    Ok((out, _)) => {
                        let removed: Vec<bool> = (0..exps.len()).map(|i| !out.contains(&format!("body{i}();"))).collect();
                        let want: Vec<bool> = exps.iter().map(|e| e <= t).collect();
                        if removed != want || prev.as_ref().map(|p| p.iter().zip(removed.iter()).any(|(a, b)| *a && !*b)).unwrap_or(false) {
                            ctx.violation("replay", format!("at now=base{:+}s removed set {:?}, expected {:?}", t, removed, want), v.clone());
                            return Ok(());
                        }
                        prev = Some(removed);
                    }
                }
            }
            ctx.nontrivial(hash_str(&text));
            Ok(())
        }
        _ => Err("bad kind".into()),
    }
}
