//! C10 tags pair by name with stack discipline; stray tags are inert text.

use crate::api::{self, call_parse_tree};
use crate::ctx::{Ctx, Tier};
use crate::refmodel::{rscan, rtag};
use crate::util::*;
use serde_json::{json, Value};

/// Reference: token spans by R-scan; a tag token is an element tag iff its body is in the R-tag
/// grammar... the parser under test decides "is this a tag" with its own tag parser, and the
/// property only speaks about tags, so bodies outside the grammar make the case unspecified
/// unless the body is one of the forms the generator knows to be rejected (`=a`).
fn reference(src: &str, ds: &str, de: &str) -> Option<(Vec<(usize, usize)>, Vec<usize>)> {
    let spans = rscan(src, ds, de);
    let mut names: Vec<Option<String>> = vec![];
    for (a, b, tag) in &spans {
        if *tag {
            let body = &src[a + ds.len()..b - de.len()];
            match rtag(body) {
                Some(t) => names.push(Some(t.0)),
                None => {
                    // body starting with '=' or a quote is documented as a parse error => text
                    let tb = body.trim_start_matches(' ');
                    if tb.starts_with('=') || tb.starts_with('"') || tb.starts_with('\'') {
                        names.push(None);
                    } else {
                        return None;
                    }
                }
            }
        } else {
            names.push(None);
        }
    }
    let pairs = crate::refmodel::rpair_checked(&names)?
        .into_iter()
        .map(|(o, c)| (spans[o].0, spans[c].0))
        .collect();
    Some((pairs, spans.iter().map(|s| s.0).collect()))
}

pub fn judge_seq(ctx: &mut Ctx, src: &str, ds: &str, de: &str, gen_name: &str) {
    let Some((want_pairs, want_order)) = reference(src, ds, de) else {
        ctx.skip("tag body outside the grammar (unspecified)");
        return;
    };
    if rscan(src, ds, de) != crate::refmodel::rautomaton(src, ds, de) {
        ctx.skip("tag recognition in dispute (KF-C08)");
        return;
    }
    ctx.eval();
    let rp = || json!({"kind": "pair", "src": src, "ds": ds, "de": de});
    match call_parse_tree(src, ds, de) {
        Err(p) => {
            ctx.panic_site(&p);
            ctx.violation(gen_name, format!("parser panicked: {} @ {}", trunc(&p.msg, 80), api::short_loc(&p.loc)), rp());
        }
        Ok(ft) => {
            let mut got = ft.pairs.clone();
            got.sort();
            if ft.token_starts != want_order {
                ctx.skip("token boundaries differ from the reference scan (C07/C08 territory)");
                return;
            }
            if got != want_pairs {
                ctx.violation(
                    gen_name,
                    format!("pairs {:?} differ from the stack rule {:?} on {:?}", got, want_pairs, trunc(src, 160)),
                    rp(),
                );
                return;
            }
            if ft.order != ft.token_starts {
                ctx.violation(
                    gen_name,
                    format!("tree flattening {:?} is not the token sequence {:?} on {:?}", ft.order, ft.token_starts, trunc(src, 160)),
                    rp(),
                );
                return;
            }
            // parent attribution: innermost enclosing reference pair
            for (o, parent) in &ft.parents {
                let c = want_pairs.iter().find(|p| p.0 == *o).map(|p| p.1).unwrap();
                let want_parent = want_pairs
                    .iter()
                    .filter(|p| p.0 < *o && c < p.1)
                    .map(|p| p.0)
                    .max();
                if *parent != want_parent {
                    ctx.violation(
                        gen_name,
                        format!("element @{o} attributed to parent {:?}, stack rule says {:?} on {:?}", parent, want_parent, trunc(src, 160)),
                        rp(),
                    );
                    return;
                }
            }
            let h = hash64(&[src.as_bytes(), ds.as_bytes()]);
            if want_order.len() >= 2 {
                ctx.nontrivial(h);
            }
            if !want_pairs.is_empty() {
                ctx.count("sequences-with-pairs");
            }
            // end to end, for a sample: the elements the remover actually evaluates (Decision hook
            // events of one `clean` call with `a` / `b` configured as the two tag names) are the
            // reference pairs named `a` / `b` - whatever the front end does with other names
            if api::HOOKS_ENABLED && (h % 8 == 0 || gen_name.starts_with("many-") || gen_name == "replay") {
                e2e(ctx, src, ds, de, gen_name);
            }
            let demoted = want_order.len() - 2 * want_pairs.len();
            if demoted > 0 && !want_pairs.is_empty() {
                ctx.count("sequences-with-pairs-and-stray-tokens");
            }
            ctx.shape(hash64(&[&want_pairs.len().to_le_bytes(), &want_order.len().to_le_bytes(), &ft.parents.iter().filter(|p| p.1.is_some()).count().to_le_bytes()]));
            if ctx.sample_due() {
                ctx.sample(|| json!({"generator": gen_name, "source": src, "delimiters": [ds, de], "pairs(open_byte,close_byte)": want_pairs}));
            }
        }
    }
}

/// Elements as consumed by the remover vs. the stack rule (registered names only).
fn e2e(ctx: &mut Ctx, src: &str, ds: &str, de: &str, gen_name: &str) {
    let spans = rscan(src, ds, de);
    let mut names: Vec<Option<String>> = vec![];
    for (a, b, tag) in &spans {
        names.push(if *tag { rtag(&src[a + ds.len()..b - de.len()]).map(|t| t.0) } else { None });
    }
    let Some(pairs) = crate::refmodel::rpair_checked(&names) else {
        return;
    };
    let mut want: Vec<(usize, usize, String)> = pairs
        .iter()
        .filter_map(|(o, c)| {
            let n = names[*o].clone()?;
            if n == "a" || n == "b" {
                Some((spans[*o].0, spans[*c].1, n))
            } else {
                None
            }
        })
        .collect();
    want.sort();
    let sp = api::Sp::new(ds, de, "a", "b");
    let cfg = crate::doc::step_cfg(crate::doc::STEP);
    match api::call_clean(src, &sp, &cfg) {
        Err(_) => ctx.count("e2e: clean panicked (C01 territory)"),
        Ok((_, ev)) => {
            let mut got: Vec<(usize, usize, String)> = ev
                .iter()
                .filter_map(|e| match e {
                    api::Event::Decision { open_start, close_end, name, .. } if name == "a" || name == "b" => Some((*open_start, *close_end, name.clone())),
                    _ => None,
                })
                .collect();
            got.sort();
            ctx.count_n("e2e:decision-events", got.len() as u64);
            if got != want {
                ctx.violation(
                    gen_name,
                    format!("elements evaluated by the remover {:?} != pairs by the stack rule {:?} (names a, b registered) :: {:?}", got, want, trunc(src, 300)),
                    json!({"kind": "pair", "src": src, "ds": ds, "de": de}),
                );
            } else {
                ctx.count("e2e:sequences-held");
            }
        }
    }
}

pub fn atoms(ds: &str, de: &str) -> Vec<String> {
    vec![
        format!("{ds}a{de}"),
        format!("{ds}b{de}"),
        format!("{ds}/a{de}"),
        format!("{ds}/b{de}"),
        format!("{ds}/z{de}"),
        "x".to_string(),
        format!("{ds}a q='1'{de}"),
        format!("{ds}/b c='x'{de}"),
    ]
}

pub fn run(ctx: &mut Ctx) {
    let quick = ctx.tier == Tier::Quick;
    ctx.set_budget_secs(if quick { 22 } else { 420 });
    let (seed, shard, n) = (ctx.seed, ctx.shard, ctx.nshards);
    // exhaustive, short delimiters
    let at = atoms("<", ">");
    let maxlen = if quick { 8 } else { 10 };
    let mut reached = 0;
    for len in 0..=maxlen {
        let mut stop = false;
        enumerate_sharded(at.len(), len, shard, n, |idx| {
            if stop {
                return;
            }
            let s: String = idx.iter().map(|i| at[*i].as_str()).collect();
            judge_seq(ctx, &s, "<", ">", "atoms");
            if ctx.evaluations % 4096 == 0 && ctx.past(0.7) {
                stop = true;
            }
        });
        if !stop {
            reached = len;
        }
    }
    ctx.note("exhaustive_max_len_completed", json!(reached));
    // exhaustive, other delimiters incl. a tag that fails the tag grammar
    for (k, (ds, de)) in [("/* <", "> */"), ("«", "»"), ("[[", "]]")].iter().enumerate() {
        let mut at = atoms(ds, de);
        at.push(format!("{ds}=a{de}"));
        at.push("\n".to_string());
        at.push(format!("{ds}/A{de}"));
        at.push(format!("{ds}/{de}"));
        at.push(format!("{ds}//z{de}"));
        at.push(format!("{ds}na{de}"));
        at.push(format!("{ds}/na{de}"));
        let maxlen = if quick { 5 } else { 7 };
        for len in 0..=maxlen {
            let mut stop = false;
            enumerate_sharded(at.len(), len, shard, n, |idx| {
                if stop {
                    return;
                }
                let s: String = idx.iter().map(|i| at[*i].as_str()).collect();
                judge_seq(ctx, &s, ds, de, "atoms-multichar");
                if ctx.evaluations % 4096 == 0 && ctx.past(0.75 + 0.05 * (k as f64 + 1.0)) {
                    stop = true;
                }
            });
        }
    }
    // random longer sequences
    let total: u64 = if quick { 2_000_000 } else { 40_000_000 };
    let names = ["a", "b", "c", "/a", "/b", "/c", "/z", "na", "/na", "list-a", "/list-a", "//z", "/A"];
    for i in (shard..total).step_by(n as usize) {
        if ctx.out_of_time() {
            break;
        }
        let mut r = Rng::for_case(seed, 31, i);
        let (ds, de) = *r.pick(&[("<", ">"), ("<!-- <", "> -->"), ("|", "|"), ("⟦🎈", "🎈⟧")]);
        // mostly 9..40 tokens; every 50th sequence is long (200..500 tokens, many unclosed openers
        // and stray closers in one scope)
        let len = if i % 50 == 7 { 200 + r.below(300) } else { 9 + r.below(32) };
        let mut s = String::new();
        for _ in 0..len {
            match r.below(5) {
                0 => {
                    let w: &str = *r.pick(&["x", "\n", " y ", "あ"]);
                    s.push_str(w)
                }
                _ => {
                    let nm = *r.pick(&names);
                    let attr = if !nm.starts_with('/') && r.chance(1, 4) { " k=\"v\"" } else { "" };
                    s.push_str(&format!("{ds}{nm}{attr}{de}"));
                }
            }
        }
        judge_seq(ctx, &s, ds, de, "random-long");
    }
    // many inert tags in one scope: k unclosed openers / stray closers, then well-formed elements
    // (a parser that bounds its work by "depth" must not lose the elements behind them)
    for (j, k) in [10usize, 127, 128, 129, 300, 1000].iter().enumerate() {
        if j as u64 % n != shard % n.min(6) && n > 1 {
            continue;
        }
        for (ds, de) in [("<", ">"), ("/* <", "> */")] {
            for inert in ["u", "/z", "u q='1'"] {
                let mut s = String::new();
                for i in 0..*k {
                    s.push_str(&format!("{ds}{inert}{de}"));
                    if i % 7 == 0 {
                        s.push('x');
                    }
                }
                s.push_str(&format!("{ds}a{de}y{ds}b{de}z{ds}/b{de}{ds}/a{de}{ds}c{de}w{ds}/c{de}"));
                judge_seq(ctx, &s, ds, de, "many-inert-tags");
                // the same, with the tail repeated (hundreds of well-formed siblings)
                let tail = format!("{ds}a{de}x{ds}/a{de}").repeat(*k);
                judge_seq(ctx, &format!("{s}{tail}"), ds, de, "many-siblings");
            }
        }
    }
    ctx.note("rule", json!("distinct token sequences with >= 2 tokens whose pairs, flattening and parent links all equal the stack rule"));
}

pub fn replay(ctx: &mut Ctx, v: &Value) -> Result<(), String> {
    let s = v.get("src").and_then(|x| x.as_str()).ok_or("no src")?;
    let ds = v.get("ds").and_then(|x| x.as_str()).ok_or("no ds")?;
    let de = v.get("de").and_then(|x| x.as_str()).ok_or("no de")?;
    judge_seq(ctx, s, ds, de, "replay");
    Ok(())
}
