//! C02 no over-removal, C03 no under-removal, C04 no-op identity, C14 locality.
//! One execution of `clean` per document, judged by `judge::doc_check`.

use super::record;
use crate::api::{Cfg, Sp};
use crate::ctx::Ctx;
use crate::doc::*;
use crate::gen::{self, *};
use crate::judge::{self, doc_check, doc_replay, DocReport, V};
use crate::util::*;
use serde_json::{json, Value};

fn pick_verdict<'a>(prop: &str, rep: &'a DocReport) -> &'a V {
    match prop {
        "C02" => &rep.c02,
        "C03" => &rep.c03,
        "C04" => &rep.c04,
        _ => &rep.c14,
    }
}

pub fn shape_of(rd: &Rendered, step: u8) -> u64 {
    // structural signature: per element (depth, strategy, readiness class), in order
    let mut v: Vec<u8> = vec![];
    for e in &rd.elems {
        v.push(e.depth as u8);
        v.push(e.unwrap as u8);
        v.push(if e.ready(step) {
            1
        } else if e.pending(step) {
            2
        } else if e.skip {
            3
        } else {
            4
        });
    }
    hash64(&[&v])
}

/// Judge one document for the context's property.
pub fn judge_one(ctx: &mut Ctx, rd: &Rendered, sp: &Sp, cfg: &Cfg, step: u8, gen_name: &str) {
    // the same configuration step read off different clocks (fractional seconds, other zone)
    let cfg = &if gen_name == "replay" { cfg.clone() } else { vary_cfg(cfg, step, hash64(&[rd.text.as_bytes()])) };
    if judge::recognition_in_dispute(&rd.text, sp) {
        ctx.skip("tag recognition in dispute on this rendering (KF-C08)");
        return;
    }
    let from_gate = matches!(gen_name, "junk-atoms" | "mutated" | "junk-random" | "many-unclosed-openers" | "replay");
    if (from_gate && !judge::spans_subset(rd, sp)) || (!from_gate && !judge::spans_consistent(rd, sp)) {
        // generator self-check: the recorded tag spans must be exactly the tags of the reference scan
        ctx.skip("delimiter characters occur outside tags under this spelling (generator self-check)");
        return;
    }
    ctx.before_exec(|| doc_replay("doc", rd, sp, cfg, step));
    ctx.eval();
    ctx.count(&format!("gen:{gen_name}"));
    let rep = doc_check(rd, sp, cfg, step);
    ctx.count_n("events:Decision", rep.n_decisions as u64);
    ctx.count_n("events:other", (rep.events.len() - rep.n_decisions.min(rep.events.len())) as u64);
    for a in &rep.hook_anomalies {
        ctx.count(&format!("hook_anomaly:{}", trunc(a, 40)));
    }
    if let Err(p) = &rep.out {
        ctx.panic_site(p);
    }
    let prop = ctx.prop.clone();
    let v = pick_verdict(&prop, &rep).clone();
    let h = hash64(&[rd.text.as_bytes(), sp.ds.as_bytes(), sp.de.as_bytes()]);
    if matches!(v, V::Held) {
        ctx.shape(shape_of(rd, step));
        // nesting classes for C03
        if prop == "C03" {
            for e in rd.elems.iter().filter(|e| e.ready(step)) {
                if let Some(p) = e.parent {
                    let pe = &rd.elems[p];
                    let cls = if pe.ready(step) && pe.unwrap {
                        "ready-in-unwrapped"
                    } else if pe.ready(step) {
                        "ready-in-ready"
                    } else if pe.skip {
                        "ready-in-skip"
                    } else if !pe.registered() {
                        "ready-in-unregistered"
                    } else {
                        "ready-in-pending"
                    };
                    ctx.count(&format!("nest:{cls}"));
                }
            }
        }
        if ctx.sample_due() {
            let ext = rep.ext.clone().unwrap_or_default();
            let out = rep.out.as_ref().ok().cloned().unwrap_or_default();
            ctx.sample(|| {
                json!({"generator": gen_name, "input": trunc(&rd.text, 600), "delimiters": [sp.ds, sp.de],
                   "ready_extents": ext, "output": trunc(&out, 600), "decisions_observed": rep.n_decisions})
            });
        }
    }
    // a decision disagreement is reported under C02..C04 only as diagnosis
    let diag = if rep.decisions.is_empty() {
        String::new()
    } else {
        format!(" [decision events: {}]", trunc(&rep.decisions[0].1, 160))
    };
    let v = match v {
        V::Violated(m) => V::Violated(format!("{m}{diag}")),
        o => o,
    };
    record(ctx, &v, gen_name, h, || doc_replay("doc", rd, sp, cfg, step));
}

fn sp_for(i: u64) -> Sp {
    // favour the documented default spellings, cycle through the pool
    match i % 4 {
        0 => default_sp(),
        1 => Sp::new("<!-- <", "> -->", "time-limited", "removal-marker"),
        _ => spelling((i / 4) as usize % DELIMS.len(), (i / 64) as usize),
    }
}

pub fn gen_ast_doc(seed: u64, stream: u64, i: u64, inline: bool, nothing_ready: bool) -> (Rendered, Sp) {
    let mut r = Rng::for_case(seed, stream, i);
    let sp = sp_for(i);
    let unit = *r.pick(&UNITS);
    let mut gc = GenCfg::block(unit);
    gc.allow_inline = inline;
    gc.max_depth = if r.chance(1, 4) { 4 } else { 3 };
    gc.words = gen::words_for(&[&sp]);
    gc.odd_wrappers = r.chance(1, 4);
    gc.wrapper_tags = inline && r.chance(1, 3);
    gc.inline_tabs = inline && r.chance(1, 3);
    let mut d = gen_block_doc(&mut r, &gc);
    if nothing_ready {
        make_nothing_ready(&mut d, &mut r);
    }
    let multiline = inline && r.chance(1, 3);
    // now and then a byte-order mark / NUL / combining character at the very start of the file
    if r.chance(1, 40) {
        let lead: &str = *r.pick(&["\u{feff}", "\u{0}", "\u{301}", "\u{feff}\n"]);
        d.insert(0, Piece::Text(lead.to_string()));
    }
    (render_with(&d, &sp, multiline), sp)
}

/// Put carriage returns into the text pieces: mode 0 = every line break becomes CRLF,
/// 1 = a random subset (mixed line endings), 2 = a few lone CRs inside lines.
pub fn crlf_pieces(ps: &mut [Piece], r: &mut Rng, mode: usize) {
    for p in ps.iter_mut() {
        match p {
            Piece::Text(t) => {
                let mut s = String::with_capacity(t.len() + 8);
                for c in t.chars() {
                    match (c, mode) {
                        ('\n', 0) => s.push_str("\r\n"),
                        ('\n', 1) if r.chance(1, 2) => s.push_str("\r\n"),
                        (' ', 2) if r.chance(1, 8) => s.push_str("\r "),
                        (c, _) => s.push(c),
                    }
                }
                *t = s;
            }
            Piece::Elem(e) => crlf_pieces(&mut e.children, r, mode),
        }
    }
}

/// Drive `f` over every valid line-sequence document up to `maxlen` lines (sharded).
pub fn lineseq_stage(ctx: &mut Ctx, maxlen: usize, until: f64, with_unwrap: bool, mut f: impl FnMut(&mut Ctx, &Rendered, &Sp)) {
    let (shard, n) = (ctx.shard, ctx.nshards);
    let sp = short_sp();
    let mut completed = 0;
    for len in 1..=maxlen {
        let mut stop = false;
        enumerate_sharded(LINE_ATOMS.len(), len, shard, n, |idx| {
            if stop {
                return;
            }
            for final_nl in [false, true] {
                if let Some(d) = lineseq_doc(idx, final_nl, with_unwrap) {
                    let rd = render(&d, &sp);
                    f(ctx, &rd, &sp);
                }
            }
            if ctx.evaluations % 1024 == 0 && ctx.past(until) {
                stop = true;
            }
        });
        if !stop {
            completed = len;
        }
    }
    ctx.note("lineseq_max_lines_completed", json!(completed));
}

/// One generated document through the binary, judged by the document oracles.
fn cli_one(ctx: &mut Ctx, bin: &str, dir: &str, seed: u64, i: u64) {
    let mut r = Rng::for_case(seed, 14, i);
    let sp = match i % 3 {
        0 => Sp::new("<!-- <", "> -->", "time-limited", "removal-marker"),
        1 => default_sp(),
        _ => spelling((i / 3) as usize % DELIMS.len(), (i / 48) as usize),
    };
    if [&sp.ds, &sp.de, &sp.tl, &sp.mk].iter().any(|s| s.contains('\0')) {
        return;
    }
    let mut gc = GenCfg::block(*r.pick(&UNITS));
    gc.words = gen::words_for(&[&sp]);
    gc.allow_inline = i % 2 == 0;
    gc.max_depth = 3;
    let mut d = gen_block_doc(&mut r, &gc);
    if i % 4 == 1 {
        // push the document over 4 KiB / 64 KiB with multi-byte filler lines of varying length, so
        // that characters straddle every power-of-two offset a reader might chunk at
        let lines = if i % 16 == 1 { 2200 + r.below(600) } else { 150 + r.below(300) };
        let mut filler = String::new();
        for k in 0..lines {
            filler.push_str(&"日本語のコメント🎈é".chars().cycle().skip(k % 7).take(5 + (k * 7) % 23).collect::<String>());
            filler.push('\n');
        }
        let at = r.below(d.len() + 1);
        d.insert(at, text(filler));
    }
    if i % 12 == 5 {
        // a byte-order mark / NUL / ESC somewhere between the pieces: text like any other
        let c: &str = *r.pick(&["\u{feff}", "\u{0}", "\u{1b}", "\u{0}\u{0}\u{1}"]);
        let at = if r.chance(1, 2) { 0 } else { r.below(d.len() + 1) };
        d.insert(at, text(c));
    }
    let rd = render(&d, &sp);
    let step = STEP;
    let cfg = step_cfg_var(step, i / 7);
    cli_judge(ctx, bin, dir, &rd, &sp, &cfg, step, r.next() % 216, "through-the-binary");
}

fn cli_judge(ctx: &mut Ctx, bin: &str, dir: &str, rd: &Rendered, sp: &Sp, cfg: &Cfg, step: u8, variant: u64, gen_name: &str) {
    if judge::recognition_in_dispute(&rd.text, sp) || !judge::spans_subset(rd, sp) || (gen_name != "replay" && !judge::spans_consistent(rd, sp)) {
        ctx.skip("through the binary: recognition in dispute / delimiter characters outside tags");
        return;
    }
    let rp = || {
        let mut v = doc_replay("doc-cli", rd, sp, cfg, step);
        v["variant"] = json!(variant);
        v
    };
    ctx.before_exec(rp);
    ctx.eval();
    ctx.count(&format!("gen:{gen_name}"));
    let tag = format!("{}-{}", ctx.shard, ctx.evaluations);
    let out = match super::cli::clean_via_cli(bin, dir, &tag, &rd.text, sp, cfg, variant) {
        Ok(o) => o,
        Err(super::cli::CliErr::Env(m)) => {
            ctx.inconclusive(&format!("through the binary: {m}"));
            return;
        }
        Err(super::cli::CliErr::Bad(m)) => {
            ctx.violation(gen_name, m, rp());
            return;
        }
    };
    ctx.count(&format!("cli-input:{}", if variant % 2 == 1 { "stdin" } else { "file" }));
    ctx.count(&format!("cli-output:{}", ["stdout", "file", "in-place"][((variant / 2) % 3) as usize]));
    if rd.text.len() > 4096 {
        ctx.count("cli-documents-over-4KiB");
    }
    let rep = judge::doc_judge(rd, step, Ok((out.clone(), vec![])));
    let prop = ctx.prop.clone();
    let v = match pick_verdict(&prop, &rep).clone() {
        V::Violated(m) => V::Violated(format!("[through the binary, variant {variant}] {m}")),
        o => o,
    };
    let h = hash64(&[rd.text.as_bytes(), sp.ds.as_bytes(), b"cli", &variant.to_le_bytes()]);
    record(ctx, &v, gen_name, h, rp);
}

pub fn replay_cli(ctx: &mut Ctx, v: &Value) -> Result<(), String> {
    let bin = std::env::var("CV_CLI_BIN").map_err(|_| "CV_CLI_BIN not set")?;
    let dir = format!("{}/docs-replay", std::env::var("CV_TMP").unwrap_or_else(|_| "/verif/build/tmp".into()));
    std::fs::create_dir_all(&dir).map_err(|e| e.to_string())?;
    let rd = Rendered::from_json(v.get("doc").ok_or("no doc")?).ok_or("bad doc")?;
    let sp = Sp::from_json(v.get("sp").ok_or("no sp")?).ok_or("bad sp")?;
    let cfg = Cfg::from_json(v.get("cfg").ok_or("no cfg")?).ok_or("bad cfg")?;
    let step = v.get("step").and_then(|s| s.as_u64()).unwrap_or(STEP as u64) as u8;
    let variant = v.get("variant").and_then(|s| s.as_u64()).unwrap_or(0);
    cli_judge(ctx, &bin, &dir, &rd, &sp, &cfg, step, variant, "replay");
    Ok(())
}

pub fn run(ctx: &mut Ctx) {
    let quick = ctx.tier == crate::ctx::Tier::Quick;
    ctx.set_budget_secs(if quick { 22 } else { 300 });
    let (seed, shard, n) = (ctx.seed, ctx.shard, ctx.nshards);
    let cfg = step_cfg(STEP);
    let is_c04 = ctx.prop == "C04";
    let scale: u64 = if quick { 8 } else { 80 };

    // ---- C04 through the binary: files in which the reference evaluation finds nothing ready must
    // come out byte for byte (file -> stdout, stdin -> stdout, --output to another / the same file),
    // also with a byte-order mark, CRLF line ends, no final line break
    if is_c04 {
        let bin = std::env::var("CV_CLI_BIN").unwrap_or_default();
        if !bin.is_empty() && std::path::Path::new(&bin).exists() {
            let dir = format!("{}/c04-{shard}", std::env::var("CV_TMP").unwrap_or_else(|_| "/verif/build/tmp".into()));
            if std::fs::create_dir_all(&dir).is_ok() {
                let total = 40_000 * scale;
                for i in (shard..total).step_by(n as usize) {
                    if ctx.past(0.12) {
                        break;
                    }
                    let (rd, sp) = gen_ast_doc(seed, 12, i, i % 2 == 0, true);
                    if [&sp.ds, &sp.de, &sp.tl, &sp.mk].iter().any(|s| s.starts_with('-') || s.contains('\0')) {
                        continue;
                    }
                    if judge::recognition_in_dispute(&rd.text, &sp) || !judge::spans_consistent(&rd, &sp) {
                        continue;
                    }
                    if crate::oracle::extents(&rd, STEP).map(|e| !e.is_empty()).unwrap_or(true) {
                        continue;
                    }
                    let t = rd.text;
                    let text = match (i / 2) % 8 {
                        1 => format!("\u{feff}{t}"),
                        2 => t.replace('\n', "\r\n"),
                        3 => t.trim_end_matches('\n').to_string(),
                        4 => format!("\u{feff}{}", t.replace('\n', "\r\n")),
                        5 => format!("\n\n{t}"),
                        6 => format!("{t}\n\n \t\n  "),
                        7 => format!("{t}\u{feff}"),
                        _ => t,
                    };
                    // the decoration may have changed the tags (a CR inside a multi-line tag turns `skip`
                    // into `skip\r`): the reference must still find nothing ready in the final text
                    let cfg_i = step_cfg_var(STEP, i / 16);
                    match admit(&text, &sp, &cfg_i) {
                        Ok(rd2) if crate::oracle::extents(&rd2, 1).map(|e| e.is_empty()).unwrap_or(false) => {}
                        _ => {
                            ctx.skip("cli-passthrough: decorated text not admitted / something ready");
                            continue;
                        }
                    }
                    let c = super::cli::Case {
                        text,
                        default_spelling: sp == Sp::new("<!-- <", "> -->", "time-limited", "removal-marker"),
                        sp,
                        cfg: cfg_i,
                        passthrough: true,
                    };
                    let variant = (i / 16) % 6 + 6 * ((i / 96) % 24);
                    super::cli::judge_case(ctx, &bin, &dir, &c, super::cli::Mode::Clean, variant, "cli-passthrough", false);
                }
                let _ = std::fs::remove_dir_all(&dir);
            }
        } else {
            ctx.count("cli-leg-unavailable (CV_CLI_BIN not built)");
        }
    }
    // ---- through the binary (C02 / C03 / C14): what the user runs is the CLI, so a sample of
    // documents - a quarter of them longer than 4 KiB / 64 KiB with multi-byte text - is cleaned by
    // the real binary (file / stdin in, stdout / other file / in place out, targets by flag /
    // file / both) and its result judged by the same oracles
    if !is_c04 {
        let bin = std::env::var("CV_CLI_BIN").unwrap_or_default();
        if !bin.is_empty() && std::path::Path::new(&bin).exists() {
            let dir = format!("{}/docs-{}-{shard}", std::env::var("CV_TMP").unwrap_or_else(|_| "/verif/build/tmp".into()), ctx.prop);
            if std::fs::create_dir_all(&dir).is_ok() {
                let total = 40_000 * scale;
                for i in (shard..total).step_by(n as usize) {
                    if ctx.past(0.10) {
                        break;
                    }
                    cli_one(ctx, &bin, &dir, seed, i);
                }
                let _ = std::fs::remove_dir_all(&dir);
            }
        } else {
            ctx.count("cli-leg-unavailable (CV_CLI_BIN not built)");
        }
    }
    // ---- A: block documents
    let total = 120_000 * scale;
    for i in (shard..total).step_by(n as usize) {
        if ctx.past(0.30) {
            break;
        }
        let (rd, sp) = gen_ast_doc(seed, 1, i, false, is_c04 && i % 4 != 0);
        judge_one(ctx, &rd, &sp, &cfg, STEP, "ast-block");
    }
    // ---- equal-shape documents back to back (every ordered pair): state kept between calls
    if !is_c04 && shard < 4 {
        let docs = equal_shape_docs();
        let sp = short_sp();
        let rds: Vec<Rendered> = docs.iter().map(|d| render(d, &sp)).collect();
        for i in (shard as usize..rds.len()).step_by(4) {
            for j in 0..rds.len() {
                judge_one(ctx, &rds[i], &sp, &cfg, STEP, "equal-shape-pairs");
                judge_one(ctx, &rds[j], &sp, &cfg, STEP, "equal-shape-pairs");
            }
        }
    }
    // ---- B: inline / shared-line / multi-line-tag documents
    let total = 80_000 * scale;
    for i in (shard..total).step_by(n as usize) {
        if ctx.past(0.50) {
            break;
        }
        let (rd, sp) = gen_ast_doc(seed, 2, i, true, is_c04 && i % 4 != 0);
        judge_one(ctx, &rd, &sp, &cfg, STEP, "ast-inline");
    }
    // ---- B2: long documents (hundreds of lines) with few removals
    let total = 1_500 * scale;
    for i in (shard..total).step_by(n as usize) {
        if ctx.past(0.56) {
            break;
        }
        let mut r = Rng::for_case(seed, 7, i);
        let sp = sp_for(i);
        let mut gc = GenCfg::block(*r.pick(&UNITS));
        gc.words = gen::words_for(&[&sp]);
        gc.max_items = 120 + r.below(200);
        gc.holds_of_10 = if is_c04 { 0 } else { 2 };
        gc.allow_inline = i % 2 == 0;
        let mut d = gen_block_doc(&mut r, &gc);
        if is_c04 {
            make_nothing_ready(&mut d, &mut r);
        }
        let rd = render(&d, &sp);
        judge_one(ctx, &rd, &sp, &cfg, STEP, "ast-long");
    }
    // ---- B3: carriage returns (mixed / pure CRLF, lone CR): '\r' is an ordinary character for
    // the properties (only spaces, tabs and line breaks may disappear)
    let total = 30_000 * scale;
    for i in (shard..total).step_by(n as usize) {
        if ctx.past(0.60) {
            break;
        }
        let mut r = Rng::for_case(seed, 8, i);
        let sp = sp_for(i);
        let mut gc = GenCfg::block(*r.pick(&UNITS));
        gc.words = gen::words_for(&[&sp]);
        let mode = r.below(3);
        // unwrap-blocks only with pure CRLF / mixed line ends (a lone CR inside a tag line makes
        // the geometry unspecified anyway)
        gc.allow_unwrap = mode != 2;
        gc.allow_inline = i % 2 == 0;
        let mut d = gen_block_doc(&mut r, &gc);
        if is_c04 && i % 4 != 0 {
            make_nothing_ready(&mut d, &mut r);
        }
        crlf_pieces(&mut d, &mut r, mode);
        let rd = render(&d, &sp);
        judge_one(ctx, &rd, &sp, &cfg, STEP, "ast-cr");
    }
    // ---- B5: big documents (thresholds: 255 / 4096 / 65 535 bytes, columns, lines, siblings)
    let total = 60 * scale;
    for i in (shard..total).step_by(n as usize) {
        if ctx.past(0.64) {
            break;
        }
        let mut r = Rng::for_case(seed, 9, i);
        let sp = sp_for(i);
        let mut d = gen_big_doc(&mut r, &sp, i % 2 == 0, i % 3 != 0);
        if is_c04 {
            make_nothing_ready(&mut d, &mut r);
        }
        let rd = render(&d, &sp);
        judge_one(ctx, &rd, &sp, &cfg, STEP, "ast-big");
    }
    // ---- B4: deep nesting in pending / skip / unregistered parents with a ready element at the
    // bottom, and hundreds of unclosed openers in front of a ready element
    if shard < 6 {
        let k = [5usize, 127, 128, 129, 400, 1500][shard as usize];
        for (pk, plevel, pskip) in [(Kind::Mk, 5u8, false), (Kind::Tl, 1, true), (Kind::Unreg, 1, false)] {
            let mut inner = vec![text("\nkeep1();\n"), elem(Kind::Mk, if is_c04 { 5 } else { 1 }, false, false, 77, vec![text("\ngone();\n")]), text("\nkeep2();\n")];
            for d in 0..k {
                inner = vec![text("\n"), elem(pk.clone(), plevel, pskip, false, 1000 + d as u64, inner), text("\n")];
            }
            let sp = short_sp();
            let rd = render(&inner, &sp);
            judge_one(ctx, &rd, &sp, &cfg, STEP, "deep-pending-nest");
            // unclosed openers in one scope, then a ready element
            let opener = format!("{}{} name='zzz'{}", sp.ds, sp.mk, sp.de);
            let ready = if is_c04 { "zzz" } else { "feat-a" };
            let s = format!("{}\nkeep();\n{}{} name='{}'{}\ngone();\n{}/{}{}\nend();\n", opener.repeat(k), sp.ds, sp.mk, ready, sp.de, sp.ds, sp.mk, sp.de);
            if let Ok(rd) = admit(&s, &sp, &cfg) {
                judge_one(ctx, &rd, &sp, &cfg, STEP, "many-unclosed-openers");
            }
            // ... and k unclosed openers of another name between the tags of a ready element
            let inert = format!("{}note{} x ", sp.ds, sp.de);
            let s = format!("keep();\n{}{} name='{}'{}\n{}\ngone();\n{}/{}{}\nend();\n", sp.ds, sp.mk, ready, sp.de, inert.repeat(k), sp.ds, sp.mk, sp.de);
            if let Ok(rd) = admit(&s, &sp, &cfg) {
                judge_one(ctx, &rd, &sp, &cfg, STEP, "many-unclosed-openers");
            }
        }
    }
    // ---- C: bounded-exhaustive seam and unwrap layouts
    let words = WORDS.to_vec();
    for rank in (shard..SeamParams::count()).step_by(n as usize) {
        if ctx.past(0.62) {
            break;
        }
        let p = SeamParams::from_rank(rank, !is_c04);
        let sp = default_sp();
        let d = seam_doc(&p, UNITS[(rank % UNITS.len() as u64) as usize], &words);
        let rd = render(&d, &sp);
        judge_one(ctx, &rd, &sp, &cfg, STEP, "seam");
    }
    let reps = if quick { 16 } else { 160 };
    for rank in (shard..UnwrapParams::count() * reps).step_by(n as usize) {
        if ctx.past(0.72) {
            break;
        }
        let p = UnwrapParams::from_rank(rank % UnwrapParams::count());
        let mut r = Rng::for_case(seed, 3, rank);
        let sp = if rank % 2 == 0 { default_sp() } else { short_sp() };
        let mut d = unwrap_doc(&p, &mut r, 1 + (rank % 3) as usize, true);
        if is_c04 {
            make_nothing_ready(&mut d, &mut r);
        }
        let rd = render(&d, &sp);
        judge_one(ctx, &rd, &sp, &cfg, STEP, "unwrap");
    }
    // ---- C2: bounded-exhaustive line sequences (block layouts incl. adjacency and nesting)
    lineseq_stage(ctx, if quick { 6 } else { 8 }, 0.80, true, |ctx, rd, sp| {
        judge_one(ctx, rd, sp, &step_cfg(STEP), STEP, "lineseq");
    });
    // ---- C3: wrapper-line child templates (exhaustive) behind the admission gate
    for sp in [short_sp(), Sp::new("«", "»", "t.l", "r+m")] {
        let mut rank = shard;
        while let Some(s) = wrapper_child_template(rank, &sp) {
            rank += n;
            if ctx.past(0.82) {
                break;
            }
            match admit(&s, &sp, &cfg) {
                Ok(rd) => {
                    if is_c04 && rd.elems.iter().any(|e| e.ready(STEP)) {
                        continue;
                    }
                    judge_one(ctx, &rd, &sp, &cfg, STEP, "junk-atoms");
                }
                Err(why) => ctx.skip(why),
            }
        }
    }
    // ---- D: junk documents (pipeline atoms, exhaustive) behind the admission gate
    let sps = [short_sp(), default_sp(), Sp::new("«", "»", "期限", "印"), Sp::new("|", "|", "tl", "m")];
    for (k, sp) in sps.iter().enumerate() {
        let atoms = pipeline_atoms(sp);
        let maxlen = if quick {
            if k == 0 {
                5
            } else {
                4
            }
        } else if k == 0 {
            6
        } else {
            5
        };
        let frac = 0.80 + 0.03 * (k as f64 + 1.0);
        for len in 0..=maxlen {
            let mut stop = false;
            enumerate_sharded(atoms.len(), len, shard, n, |idx| {
                if stop {
                    return;
                }
                let s: String = idx.iter().map(|i| atoms[*i].as_str()).collect();
                match admit(&s, sp, &cfg) {
                    Ok(rd) => {
                        if is_c04 && rd.elems.iter().any(|e| e.ready(STEP)) {
                            return;
                        }
                        judge_one(ctx, &rd, sp, &cfg, STEP, "junk-atoms");
                    }
                    Err(why) => ctx.skip(why),
                }
                if ctx.evaluations % 512 == 0 && ctx.past(frac) {
                    stop = true;
                }
            });
        }
    }
    // ---- E: mutated AST documents behind the admission gate
    let total = 60_000 * scale;
    for i in (shard..total).step_by(n as usize) {
        if ctx.past(0.97) {
            break;
        }
        let (rd0, sp) = gen_ast_doc(seed, 4, i, i % 2 == 0, false);
        let mut r = Rng::for_case(seed, 5, i);
        let mut s = rd0.text.clone();
        for _ in 0..1 + r.below(2) {
            s = mutate(&s, &sp, &mut r);
        }
        match admit(&s, &sp, &cfg) {
            Ok(rd) => {
                if is_c04 && rd.elems.iter().any(|e| e.ready(STEP)) {
                    continue;
                }
                judge_one(ctx, &rd, &sp, &cfg, STEP, "mutated");
            }
            Err(why) => ctx.skip(why),
        }
    }
    // ---- F (C04 only): arbitrary tag-free junk
    if is_c04 {
        let total = 20_000 * scale;
        let pool = ["x", " ", "\n", "\t", "あ", "<", ">", "/", "*", "-", "!", "\n\n", "  \n", "🎈", "=", "'", "\"", "\r\n", "\r", "\u{0}", "\u{feff}", "e\u{301}"];
        for i in (shard..total).step_by(n as usize) {
            if ctx.out_of_time() {
                break;
            }
            let mut r = Rng::for_case(seed, 6, i);
            let len = r.below(40);
            let s: String = (0..len).map(|_| *r.pick(&pool)).collect();
            let sp = sp_for(i);
            if let Ok(rd) = admit(&s, &sp, &cfg) {
                if rd.elems.iter().any(|e| e.ready(STEP)) {
                    continue;
                }
                judge_one(ctx, &rd, &sp, &cfg, STEP, "junk-random");
            }
        }
    }
    let rule = match ctx.prop.as_str() {
        "C02" | "C03" => "distinct (text, delimiters) with >= 1 ready element whose verdict was decided (held)",
        "C04" => "distinct (text, delimiters) in which the reference finds no ready element, judged byte-for-byte",
        _ => "distinct (text, delimiters) with >= 1 ready element and >= 1 surviving stretch compared",
    };
    ctx.note("rule", json!(rule));
}

pub fn replay(ctx: &mut Ctx, v: &Value) -> Result<(), String> {
    let rd = Rendered::from_json(v.get("doc").ok_or("no doc")?).ok_or("bad doc")?;
    let sp = Sp::from_json(v.get("sp").ok_or("no sp")?).ok_or("bad sp")?;
    let cfg = Cfg::from_json(v.get("cfg").ok_or("no cfg")?).ok_or("bad cfg")?;
    let step = v.get("step").and_then(|s| s.as_u64()).unwrap_or(STEP as u64) as u8;
    judge_one(ctx, &rd, &sp, &cfg, step, "replay");
    Ok(())
}
