//! Worker process: `cv run <PROP> --tier T --seed N --shard i/n --out FILE [--trace FILE] [--known FILE]`
//!                 `cv replay <PROP> <REPLAY.json> --out FILE [--known FILE]`
//!                 `cv merge-hashes FILE...`   (prints the number of distinct u64 values)

use cv::ctx::{Ctx, Tier};
use std::io::Read;

fn arg_value(args: &[String], name: &str) -> Option<String> {
    args.iter().position(|a| a == name).and_then(|i| args.get(i + 1).cloned())
}

fn load_open_findings(path: &str) -> Vec<String> {
    let Ok(s) = std::fs::read_to_string(path) else { return vec![] };
    let Ok(v) = serde_json::from_str::<serde_json::Value>(&s) else { return vec![] };
    v.get("findings")
        .and_then(|f| f.as_array())
        .map(|a| {
            a.iter()
                .filter(|e| e.get("status").and_then(|s| s.as_str()) == Some("open"))
                .filter_map(|e| e.get("id").and_then(|s| s.as_str()).map(|s| s.to_string()))
                .collect()
        })
        .unwrap_or_default()
}

fn main() {
    let args: Vec<String> = std::env::args().collect();
    let cmd = args.get(1).map(|s| s.as_str()).unwrap_or("");
    match cmd {
        "merge-hashes" => {
            let mut all: Vec<u64> = vec![];
            for f in &args[2..] {
                let mut buf = vec![];
                if let Ok(mut fh) = std::fs::File::open(f) {
                    let _ = fh.read_to_end(&mut buf);
                }
                for c in buf.chunks_exact(8) {
                    all.push(u64::from_le_bytes(c.try_into().unwrap()));
                }
            }
            all.sort_unstable();
            all.dedup();
            println!("{}", all.len());
        }
        "minimize" => {
            // development aid: shrink the document of a doc/line/list replay record while the
            // violation of <PROP> persists (structure re-derived through the admission gate)
            let prop = args.get(2).cloned().unwrap_or_default();
            let file = args.get(3).cloned().unwrap_or_default();
            cv::api::install_panic_hook();
            let v: serde_json::Value = serde_json::from_str(&std::fs::read_to_string(&file).expect("read")).expect("json");
            let v = v.get("replay").cloned().unwrap_or(v);
            let sp = cv::api::Sp::from_json(v.get("sp").expect("sp")).expect("sp");
            let cfg = cv::api::Cfg::from_json(v.get("cfg").expect("cfg")).expect("cfg");
            let kind = v.get("kind").and_then(|k| k.as_str()).unwrap_or("doc").to_string();
            let text = v
                .get("doc")
                .and_then(|d| d.get("text"))
                .or(v.get("text"))
                .and_then(|t| t.as_str())
                .expect("text")
                .to_string();
            let fails = |t: &str| -> bool {
                if kind == "total" {
                    return cv::api::ENTRIES.iter().any(|e| cv::api::call(*e, t, &sp, &cfg).is_err());
                }
                let Ok(rd) = cv::gen::admit(t, &sp, &cfg) else { return false };
                let mut ctx = Ctx::new(&prop, Tier::Quick, 0, 0, 1);
                let step = if cfg.targets.is_empty() { 0 } else { 1 };
                let rv = serde_json::json!({"kind": kind, "doc": rd.json(), "sp": sp.json(), "cfg": cfg.json(), "step": step});
                let _ = cv::mon::replay(&mut ctx, &rv);
                ctx.violation_count > 0
            };
            if !fails(&text) {
                println!("does not reproduce through the admission gate");
                return;
            }
            let mut cur = text;
            // by lines, then by characters
            for unit in ["line", "char"] {
                let mut chunk = 64usize;
                loop {
                    let parts: Vec<String> = if unit == "line" {
                        cur.split_inclusive('\n').map(|s| s.to_string()).collect()
                    } else {
                        cur.chars().map(|c| c.to_string()).collect()
                    };
                    let mut i = 0;
                    let mut changed = false;
                    let mut parts = parts;
                    while i < parts.len() {
                        let end = (i + chunk).min(parts.len());
                        let cand: String = parts[..i].iter().chain(parts[end..].iter()).cloned().collect();
                        if fails(&cand) {
                            parts.drain(i..end);
                            changed = true;
                        } else {
                            i += chunk;
                        }
                    }
                    cur = parts.concat();
                    if chunk == 1 && !changed {
                        break;
                    }
                    chunk = (chunk / 2).max(1);
                }
            }
            println!("minimized ({} bytes): {:?}", cur.len(), cur);
            println!("delimiters {:?} {:?} names {:?} {:?} cfg {:?}", sp.ds, sp.de, sp.tl, sp.mk, cfg);
        }
        "run" | "replay" => {
            let prop = args.get(2).cloned().unwrap_or_default();
            let tier = match arg_value(&args, "--tier").as_deref() {
                Some("thorough") => Tier::Thorough,
                _ => Tier::Quick,
            };
            let seed: u64 = arg_value(&args, "--seed").and_then(|s| s.parse().ok()).unwrap_or(0);
            let (shard, nshards) = arg_value(&args, "--shard")
                .and_then(|s| {
                    let (a, b) = s.split_once('/')?;
                    Some((a.parse::<u64>().ok()?, b.parse::<u64>().ok()?))
                })
                .unwrap_or((0, 1));
            let out = arg_value(&args, "--out").unwrap_or_else(|| "/dev/stdout".into());
            let known = arg_value(&args, "--known").unwrap_or_else(|| "/verif/known_findings.json".into());
            let trace = arg_value(&args, "--trace");
            let replay_file = if cmd == "replay" { args.get(3).cloned() } else { None };
            cv::api::install_panic_hook();
            // big stack: the parser under test is recursive and the deep-nesting workload is part of C01
            let h = std::thread::Builder::new()
                .stack_size(2 << 30)
                .spawn(move || {
                    let mut ctx = Ctx::new(&prop, tier, seed, shard, nshards.max(1));
                    ctx.note("hooks_enabled", serde_json::json!(cv::api::HOOKS_ENABLED));
                    for k in load_open_findings(&known) {
                        ctx.open_findings.insert(k);
                    }
                    if let Some(t) = trace {
                        ctx.set_trace(&t);
                    }
                    match replay_file {
                        Some(f) => {
                            let r = std::fs::read_to_string(&f)
                                .map_err(|e| e.to_string())
                                .and_then(|s| serde_json::from_str::<serde_json::Value>(&s).map_err(|e| e.to_string()))
                                .and_then(|v| {
                                    let inner = v.get("replay").cloned().unwrap_or(v);
                                    cv::mon::replay(&mut ctx, &inner)
                                });
                            if let Err(e) = r {
                                ctx.inconclusive(&format!("replay file unusable: {e}"));
                            }
                        }
                        None => cv::mon::run(&mut ctx),
                    }
                    if let Err(e) = ctx.finish(&out) {
                        eprintln!("cv: cannot write {out}: {e}");
                        std::process::exit(3);
                    }
                })
                .expect("spawn");
            if h.join().is_err() {
                // a panic in the harness itself (not in the code under test): inconclusive
                eprintln!(
                    "cv: harness thread panicked: {}",
                    cv::api::LAST_PANIC_GLOBAL.lock().map(|g| g.clone()).unwrap_or_default()
                );
                std::process::exit(4);
            }
        }
        _ => {
            eprintln!("usage: cv run|replay|merge-hashes ...");
            std::process::exit(2);
        }
    }
}
