//! Tiny Miri workload (C01 / C07 sanitizer leg): the shortest adversarial inputs through
//! tokenize / clean / list / list_all. Run with `cargo +nightly miri run --bin cvmiri -- <shard> <nshards> <count>`
//! and MIRIFLAGS=-Zmiri-disable-isolation (chrono's Local reads TZ).

use cv::api::{call, call_tokenize, Sp, ENTRIES};
use cv::doc::{step_cfg, STEP};
use cv::gen::{hostile_atoms, pipeline_atoms, tokenizer_atoms};
use cv::mon::tok::c07_oracle;
use cv::util::Rng;

fn main() {
    let args: Vec<String> = std::env::args().collect();
    let shard: u64 = args.get(1).and_then(|s| s.parse().ok()).unwrap_or(0);
    let nshards: u64 = args.get(2).and_then(|s| s.parse().ok()).unwrap_or(1);
    let count: u64 = args.get(3).and_then(|s| s.parse().ok()).unwrap_or(40);
    let seed: u64 = args.get(4).and_then(|s| s.parse().ok()).unwrap_or(0);
    cv::api::install_panic_hook();
    let cfg = step_cfg(STEP);
    let sps = [
        Sp::new("<", ">", "tl", "m"),
        Sp::new("«", "»", "tl", "m"),
        Sp::new("⟦🎈", "🎈⟧", "期限", "印"),
        Sp::new("/* <", "> */", "tl", "m"),
        Sp::new("|", "|", "tl", "m"),
    ];
    let fixed = [
        "あ",
        "< >",
        "<m name='feat-a' unwrap-block>\n<m name='feat-a'>\n</m>\n</m>",
        "\n<m name='feat-a'>\nx\n</m>\n",
        "x\n<m name='feat-a' unwrap-block>\nif {\n  あ\n}\n</m>\ny🎈",
        "<tl to='2000-01-01 00:00:00'>p</tl><m name='zzz'>q</m>é",
    ];
    let (mut calls, mut bad) = (0u64, 0u64);
    let pipeline = |text: &str, sp: &Sp, calls: &mut u64, bad: &mut u64| {
        match call_tokenize(text, &sp.ds, &sp.de) {
            Ok(t) => {
                if let Err(m) = c07_oracle(text, &sp.ds, &sp.de, &t) {
                    println!("MIRI-C07 {m}: {text:?}");
                    *bad += 1;
                }
            }
            Err(p) => {
                println!("MIRI-PANIC tokenize {} @ {}: {text:?}", p.msg, p.loc);
                *bad += 1;
            }
        }
        *calls += 1;
        for e in ENTRIES {
            *calls += 1;
            if let Err(p) = call(e, text, sp, &cfg) {
                println!("MIRI-PANIC {} {} @ {}: {text:?}", e.name(), p.msg, p.loc);
                *bad += 1;
            }
        }
    };
    if shard == 0 {
        for f in fixed {
            pipeline(f, &sps[0], &mut calls, &mut bad);
        }
    }
    for i in 0..count {
        let mut r = Rng::for_case(seed, 7, i * nshards + shard);
        let sp = &sps[r.below(sps.len())];
        let atoms = match r.below(3) {
            0 => hostile_atoms(sp),
            1 => pipeline_atoms(sp),
            _ => tokenizer_atoms(&sp.ds, &sp.de),
        };
        let len = 1 + r.below(7);
        let s: String = (0..len).map(|_| r.pick(&atoms).as_str()).collect();
        pipeline(&s, sp, &mut calls, &mut bad);
    }
    println!("MIRI-SUMMARY shard={shard} calls={calls} bad={bad}");
    if bad > 0 {
        std::process::exit(1);
    }
}
