//! Reference model pieces written from the property statements. Never calls chiritori.

/// Span of a token in the reference tokenization: (byte_start, byte_end, is_tag)
pub type Span = (usize, usize, bool);

/// R-scan (C08): leftmost occurrence of the start delimiter, at least one body character,
/// first occurrence of the end delimiter that begins after that character; continue behind
/// the span; everything else is text (maximal text runs).
pub fn rscan(src: &str, ds: &str, de: &str) -> Vec<Span> {
    let mut v = vec![];
    let mut pos = 0;
    let mut text_start = 0;
    loop {
        let Some(i) = src[pos..].find(ds).map(|i| i + pos) else {
            break;
        };
        let body = i + ds.len();
        let Some(c) = src[body..].chars().next() else {
            break;
        };
        let from = body + c.len_utf8();
        let Some(j) = src[from..].find(de).map(|j| j + from) else {
            break;
        };
        let end = j + de.len();
        if i > text_start {
            v.push((text_start, i, false));
        }
        v.push((i, end, true));
        text_start = end;
        pos = end;
    }
    if text_start < src.len() {
        v.push((text_start, src.len(), false));
    }
    v
}

/// R-automaton: model of "automaton without fallback" — the documented mechanism of the
/// known finding KF-C08. Used ONLY as the exact signature of that finding.
pub fn rautomaton(src: &str, ds: &str, de: &str) -> Vec<Span> {
    let dsc: Vec<char> = ds.chars().collect();
    let dec: Vec<char> = de.chars().collect();
    #[derive(Clone, Copy)]
    enum S {
        Text,
        Ds(usize),
        In,
        De(usize),
    }
    fn flush(v: &mut Vec<Span>, s: usize, e: usize, el: bool) {
        if e > s {
            if !el {
                if let Some(l) = v.last_mut() {
                    if !l.2 && l.1 == s {
                        l.1 = e;
                        return;
                    }
                }
            }
            v.push((s, e, el));
        }
    }
    let mut st = S::Text;
    let mut v: Vec<Span> = vec![];
    let mut start = 0;
    for (bp, c) in src.char_indices() {
        st = match st {
            S::Text => {
                if c == dsc[0] {
                    flush(&mut v, start, bp, false);
                    start = bp;
                    S::Ds(1)
                } else {
                    S::Text
                }
            }
            S::Ds(k) => {
                if k == dsc.len() {
                    S::In
                } else if c == dsc[k] {
                    S::Ds(k + 1)
                } else {
                    S::Text
                }
            }
            S::In => {
                if c == dec[0] {
                    S::De(1)
                } else {
                    S::In
                }
            }
            S::De(k) => {
                if k == dec.len() {
                    flush(&mut v, start, bp, true);
                    start = bp;
                    if c == dsc[0] {
                        S::Ds(1)
                    } else {
                        S::Text
                    }
                } else if c == dec[k] {
                    S::De(k + 1)
                } else {
                    S::In
                }
            }
        };
    }
    let el = matches!(st, S::De(k) if k == dec.len());
    flush(&mut v, start, src.len(), el);
    v
}

fn bare(c: char) -> bool {
    !(c == ' ' || c == '\n' || c == '=' || c == '"' || c == '\'')
}

pub type RTag = (String, Vec<(String, Option<String>)>);

/// R-tag (C09): grammar of a well-formed tag body (text between the delimiters).
/// optional spaces, name, then attributes `bare` or `name[ ]=[ ]'v'` / `name[ ]=[ ]"v"`,
/// separators = non-empty runs of ' ' and '\n', optional trailing separators.
/// None => outside the grammar (property silent).
pub fn rtag(body: &str) -> Option<RTag> {
    let b: Vec<char> = body.chars().collect();
    let mut i = 0;
    while i < b.len() && b[i] == ' ' {
        i += 1;
    }
    let s = i;
    while i < b.len() && bare(b[i]) {
        i += 1;
    }
    if i == s {
        return None;
    }
    let name: String = b[s..i].iter().collect();
    let mut attrs = vec![];
    loop {
        let sep = i;
        while i < b.len() && (b[i] == ' ' || b[i] == '\n') {
            i += 1;
        }
        if i == b.len() {
            break;
        }
        if i == sep {
            return None; // no separator between two items
        }
        let s = i;
        while i < b.len() && bare(b[i]) {
            i += 1;
        }
        if i == s {
            return None;
        }
        let an: String = b[s..i].iter().collect();
        let mut j = i;
        while j < b.len() && b[j] == ' ' {
            j += 1;
        }
        if j < b.len() && b[j] == '=' {
            j += 1;
            while j < b.len() && b[j] == ' ' {
                j += 1;
            }
            if j >= b.len() || !(b[j] == '"' || b[j] == '\'') {
                return None;
            }
            let q = b[j];
            j += 1;
            let vs = j;
            while j < b.len() && b[j] != q {
                j += 1;
            }
            if j >= b.len() {
                return None;
            }
            attrs.push((an, Some(b[vs..j].iter().collect())));
            i = j + 1;
        } else {
            attrs.push((an, None));
        }
    }
    Some((name, attrs))
}

/// R-pair (C10): explicit stack. Input: for every token, None (text / not a tag) or
/// Some(tag name as written, e.g. "a" or "/a"). Output: pairs (open index, close index).
/// A `/name` tag closes the innermost open `name`; everything above it on the stack is demoted
/// to text; unmatched closers and unclosed openers are text.
pub fn rpair(tags: &[Option<String>]) -> Vec<(usize, usize)> {
    rpair_checked(tags).unwrap_or_default()
}

/// Like `rpair`, but None when the sequence contains a tag whose name starts with two slashes
/// while an element that it could close under either reading (`//a` closes `/a`, or `//a`
/// closes `a`) is open: the property does not say which, so the case is unspecified. Stray
/// closers are inert text: they never become open elements.
pub fn rpair_checked(tags: &[Option<String>]) -> Option<Vec<(usize, usize)>> {
    let mut stack: Vec<usize> = vec![];
    let mut pairs = vec![];
    for (k, t) in tags.iter().enumerate() {
        if let Some(name) = t {
            if let Some(nm) = name.strip_prefix('/') {
                if nm.starts_with('/') {
                    let base = nm.trim_start_matches('/');
                    if stack.iter().any(|o| tags[*o].as_deref() == Some(nm) || tags[*o].as_deref() == Some(base)) {
                        return None;
                    }
                    continue;
                }
                if let Some(p) = stack
                    .iter()
                    .rposition(|o| tags[*o].as_deref() == Some(nm))
                {
                    pairs.push((stack[p], k));
                    stack.truncate(p);
                }
                // a closer with no matching open element is inert text
                continue;
            }
            stack.push(k);
        }
    }
    pairs.sort();
    Some(pairs)
}

// ---------------------------------------------------------------- R-time

/// days from civil (proleptic Gregorian), 1970-01-01 = 0
pub fn days_from_civil(y: i64, m: i64, d: i64) -> i64 {
    let y = if m <= 2 { y - 1 } else { y };
    let era = if y >= 0 { y } else { y - 399 } / 400;
    let yoe = y - era * 400;
    let mp = (m + 9) % 12;
    let doy = (153 * mp + 2) / 5 + d - 1;
    let doe = yoe * 365 + yoe / 4 - yoe / 100 + doy;
    era * 146097 + doe - 719468
}

pub fn is_leap(y: i64) -> bool {
    (y % 4 == 0 && y % 100 != 0) || y % 400 == 0
}

pub fn days_in_month(y: i64, m: i64) -> i64 {
    match m {
        1 | 3 | 5 | 7 | 8 | 10 | 12 => 31,
        4 | 6 | 9 | 11 => 30,
        2 => {
            if is_leap(y) {
                29
            } else {
                28
            }
        }
        _ => 0,
    }
}

#[derive(Clone, Copy, Debug, PartialEq)]
pub struct Civil {
    pub y: i64,
    pub mo: i64,
    pub d: i64,
    pub h: i64,
    pub mi: i64,
    pub s: i64,
}

impl Civil {
    pub fn valid(&self) -> bool {
        (1..=12).contains(&self.mo)
            && self.d >= 1
            && self.d <= days_in_month(self.y, self.mo)
            && (0..24).contains(&self.h)
            && (0..60).contains(&self.mi)
            && (0..60).contains(&self.s)
    }
    /// seconds since epoch if read as UTC
    pub fn secs(&self) -> i64 {
        days_from_civil(self.y, self.mo, self.d) * 86400 + self.h * 3600 + self.mi * 60 + self.s
    }
    pub fn from_secs(t: i64) -> Civil {
        let days = t.div_euclid(86400);
        let rem = t.rem_euclid(86400);
        // civil from days
        let z = days + 719468;
        let era = if z >= 0 { z } else { z - 146096 } / 146097;
        let doe = z - era * 146097;
        let yoe = (doe - doe / 1460 + doe / 36524 - doe / 146096) / 365;
        let y = yoe + era * 400;
        let doy = doe - (365 * yoe + yoe / 4 - yoe / 100);
        let mp = (5 * doy + 2) / 153;
        let d = doy - (153 * mp + 2) / 5 + 1;
        let m = if mp < 10 { mp + 3 } else { mp - 9 };
        let y = if m <= 2 { y + 1 } else { y };
        Civil {
            y,
            mo: m,
            d,
            h: rem / 3600,
            mi: (rem % 3600) / 60,
            s: rem % 60,
        }
    }
    /// canonical `YYYY-MM-DD HH:MM:SS`
    pub fn canonical(&self) -> String {
        format!(
            "{:04}-{:02}-{:02} {:02}:{:02}:{:02}",
            self.y, self.mo, self.d, self.h, self.mi, self.s
        )
    }
}

/// canonical "YYYY-MM-DD HH:MM:SS" only (exact widths, ASCII digits).
pub fn parse_canonical(s: &str) -> Option<Civil> {
    let b = s.as_bytes();
    if b.len() != 19 {
        return None;
    }
    let seps = [(4, b'-'), (7, b'-'), (10, b' '), (13, b':'), (16, b':')];
    for (i, c) in seps {
        if b[i] != c {
            return None;
        }
    }
    let num = |a: usize, z: usize| -> Option<i64> {
        if b[a..z].iter().all(|c| c.is_ascii_digit()) {
            std::str::from_utf8(&b[a..z]).ok()?.parse().ok()
        } else {
            None
        }
    };
    let c = Civil {
        y: num(0, 4)?,
        mo: num(5, 7)?,
        d: num(8, 10)?,
        h: num(11, 13)?,
        mi: num(14, 16)?,
        s: num(17, 19)?,
    };
    if c.valid() {
        Some(c)
    } else {
        None
    }
}

/// canonical offsets: ±HH:MM or ±HHMM with HH <= 23 (we only generate |offset| <= 14h), MM < 60
pub fn parse_offset(s: &str) -> Option<i64> {
    let b = s.as_bytes();
    if b.is_empty() {
        return None;
    }
    let sign = match b[0] {
        b'+' => 1,
        b'-' => -1,
        _ => return None,
    };
    let rest = &s[1..];
    let (hh, mm) = if rest.len() == 5 && rest.as_bytes()[2] == b':' {
        (&rest[0..2], &rest[3..5])
    } else if rest.len() == 4 {
        (&rest[0..2], &rest[2..4])
    } else {
        return None;
    };
    if !hh.bytes().all(|c| c.is_ascii_digit()) || !mm.bytes().all(|c| c.is_ascii_digit()) {
        return None;
    }
    let h: i64 = hh.parse().ok()?;
    let m: i64 = mm.parse().ok()?;
    if h > 23 || m > 59 {
        return None;
    }
    Some(sign * (h * 3600 + m * 60))
}

/// RFC 3339 instant "YYYY-MM-DDTHH:MM:SS±HH:MM" -> epoch seconds
/// Epoch seconds of an RFC 3339 instant, rounded DOWN when it carries a fractional part
/// (`.5`, `.999` ...): since `to` values have whole seconds, `now >= to` iff `floor(now) >= to`.
pub fn parse_rfc3339(s: &str) -> Option<i64> {
    if s.len() > 25 && s.as_bytes().get(19) == Some(&b'.') {
        let frac_end = s[20..].find(|c: char| !c.is_ascii_digit())? + 20;
        if frac_end == 20 {
            return None;
        }
        return parse_rfc3339(&format!("{}{}", &s[..19], &s[frac_end..]));
    }
    if s.len() != 25 || s.as_bytes()[10] != b'T' {
        return None;
    }
    let mut local = s[0..19].to_string();
    local.replace_range(10..11, " ");
    let c = parse_canonical(&local)?;
    let off = parse_offset(&s[19..])?;
    Some(c.secs() - off)
}

pub fn fmt_offset(secs: i64, colon: bool) -> String {
    let sign = if secs < 0 { '-' } else { '+' };
    let a = secs.abs();
    if colon {
        format!("{}{:02}:{:02}", sign, a / 3600, (a % 3600) / 60)
    } else {
        format!("{}{:02}{:02}", sign, a / 3600, (a % 3600) / 60)
    }
}

pub fn fmt_rfc3339(epoch: i64, off: i64) -> String {
    let c = Civil::from_secs(epoch + off);
    format!(
        "{:04}-{:02}-{:02}T{:02}:{:02}:{:02}{}",
        c.y,
        c.mo,
        c.d,
        c.h,
        c.mi,
        c.s,
        fmt_offset(off, true)
    )
}

/// R-time: ready iff now >= `to` read as wall clock at the offset. None => value/offset not
/// canonical (caller decides whether it is in an enumerated malformed class).
pub fn rtime_ready(to: &str, offset: &str, now_epoch: i64) -> Option<bool> {
    let c = parse_canonical(to)?;
    let off = parse_offset(offset)?;
    Some(now_epoch >= c.secs() - off)
}

#[cfg(test)]
mod tests {
    use super::*;
    #[test]
    fn civil_roundtrip() {
        for t in [0i64, 86399, 951782400, 1592222400, -1, 4102444800, 32503680000] {
            let c = Civil::from_secs(t);
            assert!(c.valid());
            assert_eq!(c.secs(), t);
        }
        assert_eq!(parse_canonical("2020-06-15 12:00:00").unwrap().secs(), 1592222400);
        assert_eq!(parse_rfc3339("2020-06-15T21:00:00+09:00").unwrap(), 1592222400);
        assert!(parse_canonical("2019-02-29 00:00:00").is_none());
        assert!(parse_canonical("2020-02-29 00:00:00").is_some());
        assert_eq!(parse_offset("-0530"), Some(-19800));
        assert_eq!(fmt_rfc3339(1592222400, 32400), "2020-06-15T21:00:00+09:00");
    }
    #[test]
    fn scan_models() {
        assert_eq!(rscan("a<t>b", "<", ">"), vec![(0, 1, false), (1, 4, true), (4, 5, false)]);
        assert_eq!(rscan("<>", "<", ">"), vec![(0, 2, false)]);
        assert_eq!(rscan("<>>", "<", ">"), vec![(0, 3, true)]);
        // fallback case: textbook finds the tag, automaton does not
        assert_eq!(rscan("//* <t> */", "/* <", "> */"), vec![(0, 1, false), (1, 10, true)]);
        assert_ne!(rautomaton("//* <t> */", "/* <", "> */"), rscan("//* <t> */", "/* <", "> */"));
        assert_eq!(rautomaton("a<t>b", "<", ">"), rscan("a<t>b", "<", ">"));
    }
    #[test]
    fn tag_grammar() {
        assert_eq!(
            rtag(" tl to='a b'\n skip "),
            Some(("tl".into(), vec![("to".into(), Some("a b".into())), ("skip".into(), None)]))
        );
        assert_eq!(rtag(" "), None);
        assert_eq!(rtag("a=b"), None);
        assert_eq!(rtag("a x = \"1\"y"), None);
    }
    #[test]
    fn pair_model() {
        let t = |s: &str| Some(s.to_string());
        assert_eq!(rpair(&[t("a"), t("b"), t("/a"), t("/b")]), vec![(0, 2)]);
        assert_eq!(rpair(&[t("a"), t("a"), t("/a"), t("/a")]), vec![(0, 3), (1, 2)]);
    }
}
