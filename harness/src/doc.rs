//! Document model (G-ast): an AST of pieces rendered to text under a spelling, with the
//! ground-truth span of every element recorded while rendering.

use crate::api::{Cfg, Sp};
use crate::util::Rng;
use serde_json::{json, Value};

#[derive(Clone, Debug, PartialEq)]
pub enum Kind {
    Tl,
    Mk,
    Unreg,
}

/// An element's condition is expressed as a *level* 1..=5: it is satisfied under configuration
/// step k (1..=4) iff level <= k. Level 5 is never satisfied.
#[derive(Clone, Debug)]
pub struct Elem {
    pub kind: Kind,
    pub level: u8,
    pub skip: bool,
    pub unwrap: bool,
    pub style: u64,
    pub children: Vec<Piece>,
}

#[derive(Clone, Debug)]
pub enum Piece {
    Text(String),
    Elem(Elem),
}

#[derive(Clone, Debug, PartialEq)]
pub struct ElemInfo {
    pub id: usize,
    pub parent: Option<usize>,
    pub kind: Kind,
    pub level: u8,
    pub skip: bool,
    pub unwrap: bool,
    pub open: (usize, usize),
    pub close: (usize, usize),
    pub depth: usize,
}

impl ElemInfo {
    pub fn registered(&self) -> bool {
        self.kind != Kind::Unreg
    }
    pub fn cond(&self, step: u8) -> bool {
        self.level <= step
    }
    pub fn ready(&self, step: u8) -> bool {
        self.registered() && self.cond(step) && !self.skip
    }
    pub fn pending(&self, step: u8) -> bool {
        self.registered() && !self.cond(step) && !self.skip
    }
    pub fn json(&self) -> Value {
        json!({"id": self.id, "parent": self.parent,
               "kind": match self.kind { Kind::Tl => "tl", Kind::Mk => "mk", Kind::Unreg => "unreg" },
               "level": self.level, "skip": self.skip, "unwrap": self.unwrap,
               "open": [self.open.0, self.open.1], "close": [self.close.0, self.close.1], "depth": self.depth})
    }
    pub fn from_json(v: &Value) -> Option<ElemInfo> {
        let pair = |k: &str| -> Option<(usize, usize)> {
            let a = v.get(k)?.as_array()?;
            Some((a.first()?.as_u64()? as usize, a.get(1)?.as_u64()? as usize))
        };
        Some(ElemInfo {
            id: v.get("id")?.as_u64()? as usize,
            parent: v.get("parent").and_then(|p| p.as_u64()).map(|p| p as usize),
            kind: match v.get("kind")?.as_str()? {
                "tl" => Kind::Tl,
                "mk" => Kind::Mk,
                _ => Kind::Unreg,
            },
            level: v.get("level")?.as_u64()? as u8,
            skip: v.get("skip")?.as_bool()?,
            unwrap: v.get("unwrap")?.as_bool()?,
            open: pair("open")?,
            close: pair("close")?,
            depth: v.get("depth")?.as_u64()? as usize,
        })
    }
}

#[derive(Clone, Debug, PartialEq)]
pub struct Rendered {
    pub text: String,
    pub elems: Vec<ElemInfo>,
}

impl Rendered {
    pub fn json(&self) -> Value {
        json!({"text": self.text, "elems": self.elems.iter().map(|e| e.json()).collect::<Vec<_>>()})
    }
    pub fn from_json(v: &Value) -> Option<Rendered> {
        Some(Rendered {
            text: v.get("text")?.as_str()?.to_string(),
            elems: v
                .get("elems")?
                .as_array()?
                .iter()
                .map(ElemInfo::from_json)
                .collect::<Option<Vec<_>>>()?,
        })
    }
}

// ------------------------------------------------------------------ configurations (steps)

/// Expiry instants T1 < T2 < T3 < T4 (as `to` values at +00:00) and T5 = never reached.
pub const TO_VALUES: [&str; 5] = [
    "2019-12-31 23:59:59",
    "2020-06-15 12:00:00",
    "2020-06-15 12:00:01",
    "2021-01-01 00:00:00",
    "2999-12-31 23:59:59",
];
/// `now` of step k equals T_k exactly (equality counts as expired).
pub const NOW_VALUES: [&str; 4] = [
    "2019-12-31T23:59:59+00:00",
    "2020-06-15T12:00:00+00:00",
    "2020-06-15T12:00:01+00:00",
    "2021-01-01T00:00:00+00:00",
];
/// Marker names by level; S_k = first k names. Level-5 names are never targeted and are
/// superstrings / case variants of targeted ones.
pub const MK_NAMES: [&str; 4] = ["feat-a", "Feat", "feat-b", "feat"];
pub const MK_NEVER: [&str; 4] = ["FEAT-A", "feat-a2", "eat", "Feat "];

/// Configuration of step k: elements with level <= k are satisfied. Step 0 satisfies nothing
/// (a `now` before every expiry value, empty target set).
pub fn step_cfg(step: u8) -> Cfg {
    assert!(step <= 4);
    if step == 0 {
        return Cfg {
            now: "2019-12-31T23:59:58+00:00".to_string(),
            offset: "+00:00".to_string(),
            targets: vec![],
        };
    }
    Cfg {
        now: NOW_VALUES[step as usize - 1].to_string(),
        offset: "+00:00".to_string(),
        targets: MK_NAMES[..step as usize].iter().map(|s| s.to_string()).collect(),
    }
}

/// The same configuration step read off a different clock: variant 1 configures another offset
/// (+09:00, +0900, -03:30, -0945) and a clock shifted by as much, variant 2 puts `now` 750 ms after
/// T_k (at step 2 that is 250 ms before T_3, at step 0 250 ms before T_1: still not expired),
/// variant 3 puts it 250 ms after T_k, spelled in the +09:00 zone, with the target names in
/// reverse order. Readiness of every level is the same as under `step_cfg(step)`.
pub fn step_cfg_var(step: u8, var: u64) -> Cfg {
    let mut c = step_cfg(step);
    match var % 4 {
        1 => {
            // another configured offset: the `to` values are wall-clock times at that offset, so
            // the same readiness needs a clock reading nine hours earlier
            let e = crate::refmodel::parse_rfc3339(&c.now).expect("step clock");
            // (offsets east and west of Greenwich, with and without minutes, both spellings)
            let (off_s, off): (&str, i64) = match (var / 4) % 4 {
                0 => ("+09:00", 32400),
                1 => ("+0900", 32400),
                2 => ("-03:30", -12600),
                _ => ("-0945", -35100),
            };
            c.now = crate::refmodel::fmt_rfc3339(e - off, if var % 8 == 1 { 0 } else { -18000 });
            c.offset = off_s.to_string();
        }
        2 => c.now = format!("{}.750{}", &c.now[..19], &c.now[19..]),
        3 => {
            let e = crate::refmodel::parse_rfc3339(&c.now).expect("step clock");
            let z = crate::refmodel::fmt_rfc3339(e, 32400);
            c.now = format!("{}.250{}", &z[..19], &z[19..]);
            c.targets.reverse();
        }
        _ => {}
    }
    c
}

/// `cfg` itself unless it is the plain configuration of `step`, in which case one of its clock
/// variants is chosen by `h` (replays carry their configuration and are not varied).
pub fn vary_cfg(cfg: &Cfg, step: u8, h: u64) -> Cfg {
    if *cfg == step_cfg(step) {
        step_cfg_var(step, h)
    } else {
        cfg.clone()
    }
}

/// Default step for single-configuration monitors.
pub const STEP: u8 = 2;

// ------------------------------------------------------------------ rendering

pub const UNREG_NAME: &str = "other-tag";

fn elem_name(e_kind: &Kind, sp: &Sp) -> String {
    match e_kind {
        Kind::Tl => sp.tl.clone(),
        Kind::Mk => sp.mk.clone(),
        Kind::Unreg => UNREG_NAME.to_string(),
    }
}

/// Render the body (between the delimiters) of an opening tag. Style bits decide quotes,
/// attribute order, optional comment attribute, padding and separators. `multiline` allows
/// line breaks as separators (README style ` \n * `).
pub fn tag_body(e: &Elem, sp: &Sp, multiline: bool) -> String {
    let mut r = Rng::new(e.style);
    let q = if r.chance(1, 2) { '"' } else { '\'' };
    let name = elem_name(&e.kind, sp);
    let mut attrs: Vec<String> = vec![];
    let lvl = e.level.clamp(1, 5) as usize;
    // spaces around '=' now and then (C09 grammar: optional spaces around '=')
    let eq = if r.chance(1, 6) { *r.pick(&[" =", "= ", " = "]) } else { "=" };
    match e.kind {
        Kind::Tl | Kind::Unreg => {
            // "never satisfied" is sometimes spelled as a malformed value (C05's enumerated
            // classes) instead of a far-future date
            let v = if lvl == 5 && r.chance(1, 3) {
                *r.pick(&["2024/02/15 12:00:00", "2000-01-01", "2000-02-30 00:00:00", "", "2000-01-01T00:00:00", "2000-01-01 24:00:00"])
            } else {
                TO_VALUES[lvl - 1]
            };
            attrs.push(format!("to{eq}{q}{v}{q}"));
        }
        Kind::Mk => {
            let n = if lvl <= 4 {
                MK_NAMES[lvl - 1]
            } else {
                MK_NEVER[r.below(MK_NEVER.len())]
            };
            attrs.push(format!("name{eq}{q}{n}{q}"));
        }
    }
    // an attribute is the attribute whether or not it carries a value
    if e.unwrap {
        attrs.push(if r.chance(1, 12) { format!("unwrap-block={q}{q}") } else { "unwrap-block".into() });
    }
    if e.skip {
        attrs.push(if r.chance(1, 12) {
            // a skip attribute is a skip attribute whatever value it is given
            let v: &str = *r.pick(&["no", "false", "0", "", "off"]);
            format!("skip={q}{v}{q}")
        } else {
            "skip".into()
        });
    }
    if r.chance(1, 4) {
        let other = if q == '"' { '\'' } else { '"' };
        if r.chance(1, 5) {
            // a value ending in a backslash (no escaping in the grammar: the quote still closes it)
            attrs.push(format!("c={q}C:\\legacy\\{q}"));
        } else {
            attrs.push(format!("c={q}note: skip unwrap-block = x{other}s{q}"));
        }
    }
    if e.style % 89 == 0 {
        // a very long comment: tags of more than 1 KiB / 4 KiB are tags like any other
        let n = if e.style % 2 == 0 { 1100 } else { 4200 };
        attrs.push(format!("c2={q}{}{q}", "long comment ".repeat(n / 13)));
    }
    r.shuffle(&mut attrs);
    let pad_l = if r.chance(1, 3) { " " } else { "" };
    let pad_r = if r.chance(1, 3) { " " } else { "" };
    let mut s = format!("{pad_l}{name}");
    for a in attrs {
        let sep = if multiline && r.chance(1, 3) {
            *r.pick(&["\n", "\n  ", " \n * ", "  "])
        } else {
            " "
        };
        s.push_str(sep);
        s.push_str(&a);
    }
    s.push_str(pad_r);
    s
}

pub fn render_with(pieces: &[Piece], sp: &Sp, multiline: bool) -> Rendered {
    let mut out = Rendered {
        text: String::new(),
        elems: vec![],
    };
    fn go(
        ps: &[Piece],
        sp: &Sp,
        out: &mut Rendered,
        parent: Option<usize>,
        depth: usize,
        multiline: bool,
    ) {
        for p in ps {
            match p {
                Piece::Text(t) => out.text.push_str(t),
                Piece::Elem(e) => {
                    let id = out.elems.len();
                    let s = out.text.len();
                    out.text.push_str(&sp.ds);
                    out.text.push_str(&tag_body(e, sp, multiline));
                    out.text.push_str(&sp.de);
                    let s2 = out.text.len();
                    out.elems.push(ElemInfo {
                        id,
                        parent,
                        kind: e.kind.clone(),
                        level: e.level,
                        skip: e.skip,
                        unwrap: e.unwrap,
                        open: (s, s2),
                        close: (0, 0),
                        depth,
                    });
                    go(&e.children, sp, out, Some(id), depth + 1, multiline);
                    let c = out.text.len();
                    out.text.push_str(&sp.ds);
                    // closing tags are tags too: optional padding and, rarely, an attribute
                    let cstyle = e.style.rotate_left(17) % 24;
                    if cstyle == 0 || cstyle == 1 {
                        out.text.push(' ');
                    }
                    out.text.push('/');
                    out.text.push_str(&elem_name(&e.kind, sp));
                    if cstyle == 2 {
                        out.text.push_str(" c=\"end\"");
                    }
                    if cstyle == 1 || cstyle == 3 {
                        out.text.push(' ');
                    }
                    out.text.push_str(&sp.de);
                    out.elems[id].close = (c, out.text.len());
                }
            }
        }
    }
    go(pieces, sp, &mut out, None, 0, multiline);
    out
}

pub fn render(pieces: &[Piece], sp: &Sp) -> Rendered {
    render_with(pieces, sp, false)
}

// ------------------------------------------------------------------ generator

#[derive(Clone, Debug)]
pub struct GenCfg {
    pub max_depth: usize,
    pub unit: &'static str,
    pub allow_unwrap: bool,
    pub allow_inline: bool,
    pub multibyte: bool,
    /// a tag may stand on line 1
    pub first_line_tag: bool,
    /// a tag on line 1 may be indented (input class of KF-C13-L1 / KF-C12-L1)
    pub l1_indent: bool,
    /// wrapper lines of unwrap blocks may be blank / whitespace-only / multi-byte
    pub odd_wrappers: bool,
    /// file may start with a line break
    pub leading_lb: bool,
    /// maximum number of top-level line items
    pub max_items: usize,
    /// probability (x/10) that a condition holds at STEP
    pub holds_of_10: usize,
    /// words used for code lines (must not contain delimiter characters where that matters)
    pub words: Vec<&'static str>,
    /// an inline element may sit on a wrapper line of an unwrap-block (outside the C11 / C12 /
    /// C15 spaces; inside the C01 / C02 / C03 / C14 spaces)
    pub wrapper_tags: bool,
    /// inline lead / trailing text may contain tabs
    pub inline_tabs: bool,
    /// an inline element may share the line of an unwrap-block's opening tag (after it) or of its
    /// closing tag (before it): geometry in which the unwrap extent is unspecified, used only
    /// by relational monitors (C19 idempotence / composition, C01)
    pub tagline_tags: bool,
    /// "big" documents: now and then very long lines, long runs of blank lines, characters that
    /// look like blanks but are not (NBSP, form feed, vertical tab, zero-width space), characters
    /// that need escaping in JSON
    pub big: bool,
    /// characters that must not occur in generated text (the non-space delimiter characters)
    pub avoid: String,
}

pub const WORDS: [&str; 10] = [
    "foo();",
    "let x = 1;",
    "bar(baz)",
    "return 0",
    "x",
    "call(a, b);",
    "// note",
    "y += 2",
    "if (k) {",
    "}",
];
pub const MB_WORDS: [&str; 5] = ["こんにちは", "日本語 text", "naïve();", "🎉 party()", "é"];
/// words made of letters that occur in no delimiter of the spelling pool
pub const SAFE_WORDS: [&str; 8] = ["x", "kilo", "yes no", "zulu", "w1", "こんにちは", "日本語", "é"];

impl GenCfg {
    pub fn block(unit: &'static str) -> GenCfg {
        GenCfg {
            max_depth: 3,
            unit,
            allow_unwrap: true,
            allow_inline: false,
            multibyte: true,
            first_line_tag: true,
            l1_indent: false,
            odd_wrappers: false,
            leading_lb: true,
            max_items: 8,
            holds_of_10: 6,
            words: WORDS.to_vec(),
            wrapper_tags: false,
            inline_tabs: false,
            tagline_tags: false,
            big: false,
            avoid: String::new(),
        }
    }
}

fn code_line(r: &mut Rng, cfg: &GenCfg) -> String {
    let mut s = code_line_plain(r, cfg);
    // now and then trailing blanks (they belong to the line and must survive)
    if r.chance(1, 12) {
        let t: &str = *r.pick(&[" ", "\t", "  "]);
        s.push_str(t);
    }
    s
}

fn code_line_plain(r: &mut Rng, cfg: &GenCfg) -> String {
    if cfg.big && r.chance(1, 6) {
        let w = match r.below(8) {
            0 => "x".repeat(*r.pick(&[255usize, 256, 300, 1000, 4096, 5000, 70_000])),
            1 => format!("a\u{a0}b\u{a0}"),
            2 => "\u{a0}".to_string(),
            3 => "\x0cpage();".to_string(),
            4 => "v\x0bt();\x0b".to_string(),
            5 => "zero\u{200b}width\u{200b}".to_string(),
            6 => "say(\"hi\", 'x', \"C:\\dir\\\");".to_string(),
            _ => "ctl\u{1}\u{7f}\u{8}();".to_string(),
        };
        if !w.chars().any(|c| cfg.avoid.contains(c)) {
            return w;
        }
    }
    if cfg.multibyte && r.chance(1, 4) {
        let w = r.pick(&MB_WORDS).to_string();
        if cfg.words.len() == WORDS.len() || SAFE_WORDS.contains(&w.as_str()) {
            return w;
        }
    }
    r.pick(&cfg.words).to_string()
}

fn blank_line(r: &mut Rng, cfg: &GenCfg) -> String {
    if cfg.big && r.chance(1, 4) {
        // long runs of blank lines / very long whitespace-only lines
        return match r.below(3) {
            0 => "\n".repeat(r.range(4, 12)),
            1 => " ".repeat(*r.pick(&[17usize, 255, 256, 1000])),
            _ => format!("{}\n\t\n  \n\n", cfg.unit),
        };
    }
    match r.below(4) {
        0 => cfg.unit.to_string(),
        1 => " ".to_string(),
        _ => String::new(),
    }
}

fn gen_level(r: &mut Rng, cfg: &GenCfg) -> u8 {
    if r.below(10) < cfg.holds_of_10 {
        1 + r.below(STEP as usize) as u8
    } else {
        STEP + 1 + r.below((5 - STEP) as usize) as u8
    }
}

pub fn gen_elem(r: &mut Rng, cfg: &GenCfg, depth: usize, indent: usize, unwrap: bool) -> Elem {
    let kind = match r.below(8) {
        0 => Kind::Unreg,
        1..=4 => Kind::Tl,
        _ => Kind::Mk,
    };
    let level = gen_level(r, cfg);
    let skip = r.chance(1, 10);
    let ind = cfg.unit.repeat(indent);
    let mut children: Vec<Piece> = vec![];
    if unwrap {
        let shape = r.below(10);
        if shape == 0 {
            // zero lines between
        } else if shape == 1 {
            let line = if cfg.odd_wrappers && r.chance(1, 2) {
                r.pick(&["", " ", "\t"]).to_string()
            } else {
                format!("{ind}{}", code_line(r, cfg))
            };
            children.push(Piece::Text(format!("\n{line}")));
        } else {
            let body_indent = indent + r.below(3);
            let (w1, w2) = if cfg.odd_wrappers && r.chance(1, 3) {
                let pool = ["", " ", "\t", "こ {", "}", "if (cond) {"];
                (
                    format!("{}{}", if r.chance(1, 2) { ind.clone() } else { String::new() }, r.pick(&pool)),
                    format!("{}{}", if r.chance(1, 2) { ind.clone() } else { String::new() }, r.pick(&pool)),
                )
            } else {
                (format!("{ind}if (cond) {{"), format!("{ind}}}"))
            };
            if cfg.tagline_tags && r.chance(1, 3) {
                // inline element right after the opening tag, on the same line
                let mut e = gen_elem(r, cfg, cfg.max_depth, indent, false);
                e.children = vec![Piece::Text(format!(" {} ", code_line(r, cfg)))];
                children.push(Piece::Text(" ".into()));
                children.push(Piece::Elem(e));
            }
            children.push(Piece::Text(format!("\n{w1}")));
            if cfg.wrapper_tags && r.chance(1, 8) {
                // one element opening on the opening wrapper line and closing on the closing
                // wrapper line (it spans the whole body)
                let mut e = gen_elem(r, cfg, cfg.max_depth, indent, false);
                let n = r.below(3);
                let mut inner = gen_lines(r, cfg, cfg.max_depth, body_indent, n);
                inner.push(Piece::Text(format!("\n{w2} ")));
                e.children = inner;
                children.push(Piece::Text(" ".into()));
                children.push(Piece::Elem(e));
                children.push(Piece::Text(format!("\n{ind}")));
                return Elem {
                    kind,
                    level,
                    skip,
                    unwrap,
                    style: r.next(),
                    children,
                };
            }
            if cfg.wrapper_tags && r.chance(1, 4) {
                // inline element on the opening wrapper line
                let mut e = gen_elem(r, cfg, cfg.max_depth, indent, false);
                e.children = vec![Piece::Text(format!(" {} ", code_line(r, cfg)))];
                children.push(Piece::Text(" ".into()));
                children.push(Piece::Elem(e));
            }
            let n = r.below(5);
            children.extend(gen_lines(r, cfg, depth + 1, body_indent, n));
            children.push(Piece::Text(format!("\n{w2}")));
            if cfg.wrapper_tags && r.chance(1, 5) {
                // inline element on the closing wrapper line
                let mut e = gen_elem(r, cfg, cfg.max_depth, indent, false);
                e.children = vec![Piece::Text(code_line(r, cfg))];
                children.push(Piece::Text(" ".into()));
                children.push(Piece::Elem(e));
            }
        }
    } else {
        let n = r.below(4);
        let bi = indent + r.below(2);
        children.extend(gen_lines(r, cfg, depth + 1, bi, n));
    }
    children.push(Piece::Text(format!("\n{ind}")));
    if unwrap && cfg.tagline_tags && r.chance(1, 4) {
        // inline element right before the closing tag, on the same line
        let mut e = gen_elem(r, cfg, cfg.max_depth, indent, false);
        e.children = vec![Piece::Text(code_line(r, cfg))];
        children.push(Piece::Elem(e));
        children.push(Piece::Text(" ".into()));
    }
    Elem {
        kind,
        level,
        skip,
        unwrap,
        style: r.next(),
        children,
    }
}

/// produce n "line items", each beginning with "\n" then content
pub fn gen_lines(r: &mut Rng, cfg: &GenCfg, depth: usize, indent: usize, n: usize) -> Vec<Piece> {
    let mut v = vec![];
    for _ in 0..n {
        let ind = cfg.unit.repeat(indent);
        match r.below(10) {
            0 | 1 => v.push(Piece::Text(format!("\n{}", blank_line(r, cfg)))),
            2..=4 if depth < cfg.max_depth => {
                let unwrap = cfg.allow_unwrap && r.chance(1, 3);
                v.push(Piece::Text(format!("\n{ind}")));
                v.push(Piece::Elem(gen_elem(r, cfg, depth, indent, unwrap)));
            }
            5 if cfg.allow_inline && depth < cfg.max_depth => {
                // inline element sharing a line with code
                let lead = if r.chance(3, 4) {
                    if cfg.inline_tabs && r.chance(1, 3) {
                        format!("{}\t{} ", code_line(r, cfg), code_line(r, cfg))
                    } else {
                        format!("{} ", code_line(r, cfg))
                    }
                } else {
                    String::new()
                };
                v.push(Piece::Text(format!("\n{ind}{lead}")));
                let mut e = gen_elem(r, cfg, cfg.max_depth, indent, false);
                let shape = r.below(4);
                e.children = match shape {
                    0 => vec![],
                    1 => vec![Piece::Text(code_line(r, cfg))],
                    2 => vec![Piece::Text(format!(
                        " {}\n{ind}{} ",
                        code_line(r, cfg),
                        code_line(r, cfg)
                    ))],
                    _ => vec![Piece::Text(format!(" {} ", code_line(r, cfg)))],
                };
                // a whole unwrap-block element on a single line must be left untouched (C11)
                if cfg.allow_unwrap && shape != 2 && r.chance(1, 6) {
                    e.unwrap = true;
                }
                v.push(Piece::Elem(e));
                if r.chance(1, 5) {
                    // a second inline element directly behind the first, on the same line
                    let mut e2 = gen_elem(r, cfg, cfg.max_depth, indent, false);
                    e2.children = vec![Piece::Text(code_line(r, cfg))];
                    if r.chance(1, 2) {
                        v.push(Piece::Text(" ".into()));
                    }
                    v.push(Piece::Elem(e2));
                }
                if r.chance(1, 2) {
                    if cfg.inline_tabs && r.chance(1, 2) {
                        v.push(Piece::Text(format!("\t{}\t", code_line(r, cfg))));
                    } else {
                        v.push(Piece::Text(format!(" {}", code_line(r, cfg))));
                    }
                }
            }
            _ => {
                let extra = if r.chance(1, 5) { r.below(3) } else { 0 };
                v.push(Piece::Text(format!(
                    "\n{}{}",
                    cfg.unit.repeat(indent + extra),
                    code_line(r, cfg)
                )));
            }
        }
    }
    v
}

pub fn gen_block_doc(r: &mut Rng, cfg: &GenCfg) -> Vec<Piece> {
    let n = 1 + r.below(cfg.max_items.max(1));
    let i0 = r.below(2);
    let mut v = gen_lines(r, cfg, 0, i0, n);
    let leading_lb = cfg.leading_lb && r.chance(1, 10);
    // is the first line item a tag line?
    let first_is_tag = matches!(v.get(1), Some(Piece::Elem(_)))
        && matches!(v.first(), Some(Piece::Text(t)) if t.trim_matches(|c| c == ' ' || c == '\t' || c == '\n').is_empty());
    let need_first_line = !leading_lb
        && first_is_tag
        && (!cfg.first_line_tag || (i0 > 0 && !cfg.l1_indent));
    if need_first_line {
        v.insert(
            0,
            Piece::Text(format!("\n{}first();", cfg.unit.repeat(i0))),
        );
    }
    if !leading_lb {
        if let Some(Piece::Text(t)) = v.first_mut() {
            if t.starts_with('\n') {
                t.remove(0);
            }
        }
    }
    if r.chance(2, 3) {
        v.push(Piece::Text("\n".into()));
    }
    v
}

/// Count elements in an AST.
pub fn count_elems(ps: &[Piece]) -> usize {
    ps.iter()
        .map(|p| match p {
            Piece::Text(_) => 0,
            Piece::Elem(e) => 1 + count_elems(&e.children),
        })
        .sum()
}
