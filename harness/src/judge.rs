//! Oracles over one execution: (rendered document, spelling, configuration step) -> verdicts.
//! Every verdict is derived from the property text via the reference model in `oracle`.

use crate::api::{self, Cfg, Entry, Event, PanicInfo, Sp};
use crate::doc::*;
use crate::oracle::*;
use crate::refmodel;
use crate::util::*;
use serde_json::{json, Value};

#[derive(Clone, Debug, PartialEq)]
pub enum V {
    Held,
    Violated(String),
    Skipped(&'static str),
    /// exactly recognised open known finding
    Known(&'static str, String),
    /// premise of the property not exercised by this execution
    NA,
}

impl V {
    pub fn is_violated(&self) -> bool {
        matches!(self, V::Violated(_))
    }
}

pub fn doc_replay(kind: &str, rd: &Rendered, sp: &Sp, cfg: &Cfg, step: u8) -> Value {
    json!({"kind": kind, "doc": rd.json(), "sp": sp.json(), "cfg": cfg.json(), "step": step})
}

/// Is tag recognition on this text in dispute (R-scan != R-automaton, i.e. KF-C08 territory)?
pub fn recognition_in_dispute(text: &str, sp: &Sp) -> bool {
    refmodel::rscan(text, &sp.ds, &sp.de) != refmodel::rautomaton(text, &sp.ds, &sp.de)
}

/// Generator self-check: the spans recorded while rendering are exactly the tag spans R-scan
/// finds for those elements (every recorded open/close span is an R-scan tag span).
pub fn spans_consistent(rd: &Rendered, sp: &Sp) -> bool {
    let spans = refmodel::rscan(&rd.text, &sp.ds, &sp.de);
    let tags: std::collections::HashSet<(usize, usize)> = spans
        .iter()
        .filter(|s| s.2)
        .map(|s| (s.0, s.1))
        .collect();
    rd.elems
        .iter()
        .all(|e| tags.contains(&e.open) && tags.contains(&e.close))
        && tags.len() == rd.elems.len() * 2
}

/// Relaxed form for documents derived through the admission gate (stray tags may exist): every
/// recorded open / close span is a tag span of the reference scan.
pub fn spans_subset(rd: &Rendered, sp: &Sp) -> bool {
    let spans = refmodel::rscan(&rd.text, &sp.ds, &sp.de);
    let tags: std::collections::HashSet<(usize, usize)> = spans.iter().filter(|s| s.2).map(|s| (s.0, s.1)).collect();
    rd.elems.iter().all(|e| tags.contains(&e.open) && tags.contains(&e.close))
}

pub struct DocReport {
    pub out: Result<String, PanicInfo>,
    pub events: Vec<Event>,
    pub ext: Option<Vec<(usize, usize)>>,
    pub n_ready: usize,
    pub c02: V,
    pub c03: V,
    pub c04: V,
    pub c14: V,
    /// Decision-event disagreements: (property, description)
    pub decisions: Vec<(&'static str, String)>,
    pub n_decisions: usize,
    pub hook_anomalies: Vec<String>,
}

/// Run clean once and judge C02 / C03 / C04 / C14 plus decision events.
pub fn doc_check(rd: &Rendered, sp: &Sp, cfg: &Cfg, step: u8) -> DocReport {
    let res = api::call_clean(&rd.text, sp, cfg);
    doc_judge(rd, step, res)
}

/// The four verdicts for one observed result of cleaning `rd` (from the library call or from the
/// binary; the latter comes without hook events).
pub fn doc_judge(rd: &Rendered, step: u8, res: Result<(String, Vec<Event>), PanicInfo>) -> DocReport {
    let ext = extents(rd, step);
    let n_ready = rd.elems.iter().filter(|e| e.ready(step)).count();
    let mut rep = DocReport {
        out: Err(PanicInfo {
            msg: String::new(),
            loc: String::new(),
        }),
        events: vec![],
        ext: ext.clone(),
        n_ready,
        c02: V::NA,
        c03: V::NA,
        c04: V::NA,
        c14: V::NA,
        decisions: vec![],
        n_decisions: 0,
        hook_anomalies: vec![],
    };
    let (out, events) = match res {
        Err(p) => {
            let m = format!("panic {} @ {}", trunc(&p.msg, 80), api::short_loc(&p.loc));
            rep.out = Err(p);
            // a panic makes every property's observable wrong
            rep.c02 = V::Violated(m.clone());
            rep.c03 = V::Violated(m.clone());
            rep.c04 = if ext.as_ref().map(|e| e.is_empty()).unwrap_or(false) {
                V::Violated(m.clone())
            } else {
                V::NA
            };
            rep.c14 = V::Violated(m);
            return rep;
        }
        Ok(x) => x,
    };
    rep.out = Ok(out.clone());
    // decision events
    let (dec, n) = check_decisions(rd, step, &events);
    rep.decisions = dec;
    rep.n_decisions = n;
    rep.hook_anomalies = hook_anomalies(&rd.text, &events);
    rep.events = events;
    let Some(ext) = ext else {
        rep.c02 = V::Skipped("ready unwrap element in non-canonical geometry");
        rep.c03 = V::Skipped("ready unwrap element in non-canonical geometry");
        rep.c04 = V::Skipped("ready unwrap element in non-canonical geometry");
        rep.c14 = V::Skipped("ready unwrap element in non-canonical geometry");
        return rep;
    };
    let rr = minus(&rd.text, &ext);
    // C04
    if ext.is_empty() {
        rep.c04 = if out == rd.text {
            V::Held
        } else {
            V::Violated(format!(
                "nothing ready but output differs: {:?} => {:?}",
                trunc(&rd.text, 300),
                trunc(&out, 300)
            ))
        };
    }
    // C02
    rep.c02 = if !is_subseq(&out, &rd.text) {
        V::Violated("output is not the input with byte ranges taken out".into())
    } else if !is_subseq(&nonws(&rr), &out) {
        V::Violated(format!(
            "non-whitespace text outside ready extents is missing: R={:?} out={:?}",
            trunc(&rr, 300),
            trunc(&out, 300)
        ))
    } else if ext.is_empty() {
        V::NA
    } else {
        V::Held
    };
    // C03
    let c03_ok = ws_deletion_only(&rr, &out);
    rep.c03 = if !c03_ok {
        V::Violated(format!(
            "output is not (input minus ready extents) up to whitespace: R={:?} out={:?}",
            trunc(&rr, 300),
            trunc(&out, 300)
        ))
    } else if ext.is_empty() {
        V::NA
    } else {
        V::Held
    };
    // C14 (needs C02/C03 alignment)
    if rep.c02.is_violated() || rep.c03.is_violated() {
        // the character alignment is undefined; fall back to the literal reading of the property:
        // the trimmed stretches occur verbatim in the output, in order (greedy leftmost search
        // finds an embedding whenever one exists)
        rep.c14 = match c14_ordered_search(rd, step, &ext, &out) {
            Ok(_) => V::Skipped("C02/C03 failed on this document; stretches still occur in order"),
            Err(m) => V::Violated(m),
        };
    } else {
        rep.c14 = match c14_check(rd, step, &ext, &out) {
            Ok(0) => V::NA,
            Ok(_) => {
                if ext.is_empty() {
                    V::NA
                } else {
                    V::Held
                }
            }
            Err(m) => V::Violated(m),
        };
    }
    rep
}

/// Compare Decision events with R-ready. Returns (disagreements, number of decisions seen).
pub fn check_decisions(rd: &Rendered, step: u8, events: &[Event]) -> (Vec<(&'static str, String)>, usize) {
    let mut bad = vec![];
    let mut n = 0;
    let mut seen = vec![false; rd.elems.len()];
    for ev in events {
        if let Event::Decision {
            open_start,
            name,
            is_skip,
            evaluator,
            outcome,
            ..
        } = ev
        {
            n += 1;
            let Some(e) = rd.elems.iter().find(|e| e.open.0 == *open_start) else {
                bad.push((
                    "C10",
                    format!("decision for an element the generator did not create at {open_start} ({name})"),
                ));
                continue;
            };
            seen[e.id] = true;
            let prop: &'static str = match e.kind {
                Kind::Tl => "C05",
                _ => "C06",
            };
            if *is_skip != e.skip {
                bad.push(("C06", format!("skip flag of element @{} is {} but code saw {}", e.open.0, e.skip, is_skip)));
            }
            let want = if e.registered() { Some(e.cond(step)) } else { None };
            if *evaluator != want {
                bad.push((
                    if e.registered() { prop } else { "C06" },
                    format!(
                        "element @{} ({:?}, level {}, step {}): evaluator said {:?}, reference {:?}",
                        e.open.0, e.kind, e.level, step, evaluator, want
                    ),
                ));
            }
            // outcome: a removal outcome is only legitimate for a ready element
            if let Some((_, _, true)) = outcome {
                if !e.ready(step) {
                    bad.push((
                        if e.skip { "C06" } else { prop },
                        format!("element @{} is not ready but was given a removal range", e.open.0),
                    ));
                }
            }
        }
    }
    if n > 0 {
        for (i, s) in seen.iter().enumerate() {
            if !*s {
                bad.push(("C10", format!("element #{i} @{} never reached the remover", rd.elems[i].open.0)));
            }
        }
    }
    (bad, n)
}

/// Hook invariants that are evidence only (never a verdict on their own).
pub fn hook_anomalies(text: &str, events: &[Event]) -> Vec<String> {
    let mut v = vec![];
    for ev in events {
        match ev {
            Event::CleanMarkers { markers, source_len, removed_len } => {
                let mut prev = 0usize;
                let mut total = 0usize;
                for (s, e, _) in markers {
                    if *s < prev || e < s || *e > text.len() {
                        v.push(format!("CleanMarkers not sorted/disjoint/in-bounds: {:?}", markers));
                        break;
                    }
                    if !text.is_char_boundary(*s) || !text.is_char_boundary(*e) {
                        v.push("CleanMarkers off char boundary".to_string());
                        break;
                    }
                    prev = *e;
                    total += e - s;
                }
                if source_len.checked_sub(total) != Some(*removed_len) && v.is_empty() {
                    v.push("CleanMarkers: removed length does not add up".to_string());
                }
                for (i, (_, _, p)) in markers.iter().enumerate() {
                    if let Some(p) = p {
                        if markers.get(*p).and_then(|m| m.2) != Some(i) {
                            v.push(format!("CleanMarkers: pair index of marker {i} not symmetric"));
                            break;
                        }
                    }
                }
            }
            Event::FormatRanges { ranges } => {
                let mut prev = 0usize;
                for (i, (s, e)) in ranges.iter().enumerate() {
                    if e < s || (i > 0 && *s <= prev) {
                        v.push(format!("FormatRanges not sorted/disjoint: {:?}", ranges));
                        break;
                    }
                    prev = *e;
                }
            }
            _ => {}
        }
    }
    v
}

// ------------------------------------------------------------------ line-level oracles (C11 C12 C13)

pub struct LineReport {
    pub c11: V,
    pub c12: V,
    pub c13a: V,
    pub c13b: V,
    pub n_unwrapped: usize,
    pub n_short_unwrap: usize,
    pub n_body_lines: usize,
    pub n_blocks_formula: usize,
    pub formula_classes: Vec<(usize, usize)>,
}

fn has_ready_default_ancestor(rd: &Rendered, e: &ElemInfo, step: u8) -> bool {
    let mut p = e.parent;
    while let Some(pi) = p {
        let pe = &rd.elems[pi];
        if pe.ready(step) && !pe.unwrap {
            return true;
        }
        p = pe.parent;
    }
    false
}

/// Block documents: every tag alone on its line. `out` is the clean output.
pub fn line_check(rd: &Rendered, step: u8, ext: &[(usize, usize)], out: &str) -> LineReport {
    let mut rep = LineReport {
        c11: V::NA,
        c12: V::NA,
        c13a: V::NA,
        c13b: V::NA,
        n_unwrapped: 0,
        n_short_unwrap: 0,
        n_body_lines: 0,
        n_blocks_formula: 0,
        formula_classes: vec![],
    };
    let t = &rd.text;
    let lt = line_table(rd, ext);
    let ls = split_lines(t);
    let us = ready_unwrapped(rd, step);
    rep.n_unwrapped = us.len();
    let surv: Vec<(usize, &Line)> = lt
        .iter()
        .enumerate()
        .filter(|(_, l)| !l.removed && !blank(&l.text))
        .collect();
    let out_lines: Vec<&str> = out.split('\n').collect();
    let out_nb: Vec<(usize, &str)> = out_lines
        .iter()
        .enumerate()
        .filter(|(_, l)| !blank(l))
        .map(|(i, l)| (i, *l))
        .collect();
    let has_default_ready = rd.elems.iter().any(|e| e.ready(step) && !e.unwrap);

    // ---- sequence of trimmed non-blank lines (C11 main part, C13a precondition)
    let a: Vec<&str> = surv.iter().map(|(_, l)| l.text.trim_matches(|c| c == ' ' || c == '\t')).collect();
    let b: Vec<&str> = out_nb.iter().map(|(_, l)| l.trim_matches(|c| c == ' ' || c == '\t')).collect();
    let seq_ok = a == b;
    let seq_msg = || {
        let k = a.iter().zip(b.iter()).position(|(x, y)| x != y).unwrap_or(a.len().min(b.len()));
        format!(
            "surviving line sequence differs at #{k}: expected {:?}, output has {:?} (expected {} lines, got {})",
            a.get(k),
            b.get(k),
            a.len(),
            b.len()
        )
    };

    // ---- C11
    let short: Vec<&ElemInfo> = rd
        .elems
        .iter()
        .filter(|e| {
            e.ready(step)
                && e.unwrap
                && matches!(unwrap_geom(t, e), UnwrapGeom::Canonical(0) | UnwrapGeom::Canonical(1) | UnwrapGeom::SingleLine)
        })
        .collect();
    rep.n_short_unwrap = short.len();
    if !us.is_empty() || !short.is_empty() {
        let mut v = V::Held;
        if !seq_ok {
            v = V::Violated(seq_msg());
        } else {
            // un-unwrappable elements stay verbatim (modulo dedent inside an enclosing unwrapped body)
            let bodies = unwrapped_bodies(rd, step);
            for e in &short {
                if has_ready_default_ancestor(rd, e, step) {
                    continue;
                }
                let inner_ready = rd.elems.iter().any(|x| {
                    x.id != e.id && x.ready(step) && x.open.0 >= e.open.0 && x.close.1 <= e.close.1
                        && (!x.unwrap || unwrap_parts(t, x).is_some())
                });
                if inner_ready {
                    continue;
                }
                let txt = &t[e.open.0..e.close.1];
                let in_body = bodies.iter().any(|(a, b)| *a <= e.open.0 && e.close.1 <= *b);
                let ok = if !in_body {
                    out.contains(txt)
                } else {
                    let norm = |s: &str| -> String {
                        s.split('\n')
                            .map(|l| l.trim_start_matches(|c| c == ' ' || c == '\t'))
                            .collect::<Vec<_>>()
                            .join("\n")
                    };
                    norm(out).contains(&norm(txt))
                };
                if !ok {
                    v = V::Violated(format!(
                        "unwrap-block with fewer than two lines between its tags was not left untouched: {:?}",
                        trunc(txt, 200)
                    ));
                    break;
                }
            }
        }
        rep.c11 = v;
    }

    // ---- C12: dedent of surviving inner lines
    if !us.is_empty() && seq_ok {
        let in_body_line = |li: usize| us.iter().any(|u| li > u.open_line + 1 && li + 1 < u.close_line);
        match expected_indents(rd, step) {
            None => rep.c12 = V::Skipped("irregular nested indentation (composition order matters)"),
            Some(exp) => {
                let mut v = V::Held;
                let mut n = 0;
                let mut first_bad: Option<String> = None;
                let mut all_bad: Vec<(usize, usize, usize)> = vec![]; // (line idx, got, exp)
                for (k, (li, l)) in surv.iter().enumerate() {
                    if !in_body_line(*li) {
                        continue;
                    }
                    n += 1;
                    let o = out_nb[k].1;
                    let got = indent_len(o);
                    let rest_same = o[indent_of(o).len()..] == l.text[indent_of(&l.text).len()..];
                    let ws_sub = is_subseq(indent_of(o), indent_of(&l.text));
                    if got != exp[*li] || !rest_same || !ws_sub {
                        all_bad.push((*li, got, exp[*li]));
                        if first_bad.is_none() {
                            first_bad = Some(format!(
                                "inner line {:?} (input line {}) has indentation {} in the output, expected {}{}{}",
                                trunc(&l.text, 60),
                                li + 1,
                                got,
                                exp[*li],
                                if rest_same { "" } else { "; remainder changed" },
                                if ws_sub { "" } else { "; new indentation is not taken from the old one" }
                            ));
                        }
                    }
                }
                rep.n_body_lines = n;
                if let Some(m) = first_bad {
                    v = V::Violated(m);
                } else if n == 0 {
                    v = V::NA;
                }
                rep.c12 = v;
            }
        }
    } else if !us.is_empty() {
        rep.c12 = V::Skipped("line sequence differs (C11), alignment undefined");
    }

    // ---- C13a: surviving non-blank lines byte-for-byte (lines outside unwrapped bodies; the
    // monitors feed documents without unwrap-blocks here)
    if has_default_ready && us.is_empty() && short.is_empty() {
        let full_a: Vec<&str> = surv.iter().map(|(_, l)| l.text.as_str()).collect();
        let full_b: Vec<&str> = out_nb.iter().map(|(_, l)| *l).collect();
        if full_a == full_b {
            rep.c13a = V::Held;
        } else {
            let k = full_a.iter().zip(full_b.iter()).position(|(x, y)| x != y).unwrap_or(full_a.len().min(full_b.len()));
            let msg = format!(
                "surviving line #{k} not byte-identical: input {:?}, output {:?} ({} vs {} non-blank lines)",
                full_a.get(k), full_b.get(k), full_a.len(), full_b.len()
            );
            rep.c13a = V::Violated(msg);
        }

        // ---- C13b: blank-line arithmetic
        if seq_ok {
            let tops: Vec<&ElemInfo> = rd
                .elems
                .iter()
                .filter(|e| e.ready(step) && !e.unwrap && !has_ready_default_ancestor(rd, e, step))
                .collect();
            let mut v = V::NA;
            for k in 0..surv.len().saturating_sub(1) {
                let (i, _) = surv[k];
                let (j, _) = surv[k + 1];
                let between: Vec<&&ElemInfo> = tops
                    .iter()
                    .filter(|e| {
                        let l = line_of(&ls, e.open.0);
                        l > i && l < j
                    })
                    .collect();
                if between.len() != 1 {
                    continue;
                }
                let e = between[0];
                let first_removed = (i + 1..j).find(|l| lt[*l].removed);
                let last_removed = (i + 1..j).rev().find(|l| lt[*l].removed);
                let (Some(fr), Some(lr)) = (first_removed, last_removed) else { continue };
                if line_of(&ls, e.open.0) != fr || line_of(&ls, e.close.0) != lr {
                    continue;
                }
                let b = fr - i - 1;
                let a = j - lr - 1;
                let exp = a + b - if a > 0 && b > 0 { 1 } else { 0 };
                let got = out_nb[k + 1].0 - out_nb[k].0 - 1;
                rep.n_blocks_formula += 1;
                rep.formula_classes.push((b, a));
                if got != exp {
                    v = V::Violated(format!(
                        "block with b={b} blank lines before and a={a} after leaves {got} blank lines, expected {exp}"
                    ));
                    break;
                } else if v == V::NA {
                    v = V::Held;
                }
            }
            rep.c13b = v;
        } else {
            rep.c13b = V::Skipped("line sequence differs, alignment undefined");
        }
    }
    rep
}

// ------------------------------------------------------------------ listing oracles (C15 C16 C17)

#[derive(Clone, Debug, PartialEq)]
pub struct Item {
    pub first: usize,
    pub last: usize,
    pub block: String,
    pub ready: bool,
}

/// Strict structural parse of the JSON list form (C16): array of objects with exactly the
/// three keys, line_range = [first, last], status in {Ready, Pending}.
pub fn parse_list_json(js: &str) -> Result<Vec<Item>, String> {
    let v: Value = serde_json::from_str(js).map_err(|e| format!("not valid JSON: {e}"))?;
    let arr = v.as_array().ok_or("top level is not an array")?;
    let mut items = vec![];
    for it in arr {
        let o = it.as_object().ok_or("item is not an object")?;
        if o.len() != 3 {
            return Err(format!("item has {} keys, expected 3", o.len()));
        }
        let lr = o
            .get("line_range")
            .and_then(|x| x.as_array())
            .ok_or("line_range missing or not an array")?;
        if lr.len() != 2 {
            return Err("line_range is not a pair".into());
        }
        let first = lr[0].as_u64().ok_or("line_range[0] not an unsigned integer")? as usize;
        let last = lr[1].as_u64().ok_or("line_range[1] not an unsigned integer")? as usize;
        let block = o
            .get("annotated_code_block")
            .and_then(|x| x.as_str())
            .ok_or("annotated_code_block missing or not a string")?
            .to_string();
        let st = o
            .get("current_status")
            .and_then(|x| x.as_str())
            .ok_or("current_status missing or not a string")?;
        let ready = match st {
            "Ready" => true,
            "Pending" => false,
            other => return Err(format!("unknown status {other:?}")),
        };
        items.push(Item {
            first,
            last,
            block,
            ready,
        });
    }
    Ok(items)
}

/// Remove every SGR escape sequence (`ESC [ ... m`), whatever colours are used.
pub fn strip_colors(s: &str) -> String {
    let mut out = String::with_capacity(s.len());
    let mut rest = s;
    while let Some(i) = rest.find("\x1b[") {
        out.push_str(&rest[..i]);
        let after = &rest[i + 2..];
        match after.find('m') {
            Some(j) if after[..j].chars().all(|c| c.is_ascii_digit() || c == ';') => rest = &after[j + 1..],
            _ => {
                out.push_str("\x1b[");
                rest = after;
            }
        }
    }
    out.push_str(rest);
    out
}

/// All highlighted spans of a pretty listing, in order: text between a non-reset SGR sequence and
/// the next reset, except the `_start` / `‾end` marker words (which are coloured too).
pub fn highlighted_spans(pretty: &str) -> Vec<String> {
    let mut v = vec![];
    let mut rest = pretty;
    while let Some(i) = rest.find("\x1b[") {
        let after = &rest[i + 2..];
        let Some(j) = after.find('m') else { break };
        let code = &after[..j];
        let body = &after[j + 1..];
        if code == "0" {
            rest = body;
            continue;
        }
        let Some(k) = body.find("\x1b[0m") else { break };
        let span = &body[..k];
        if span != "_start" && span != "‾end" {
            v.push(span.to_string());
        }
        rest = &body[k + 4..];
    }
    v
}

/// C16: one `annotated_code_block` against the region it renders, derived from the property
/// text only: exactly the source lines first..last with tabs expanded to four spaces, each
/// behind a prefix of one fixed width that holds the 1-based line number, framed by a `_start`
/// line and an `‾end` line whose marker columns are prefix width + column of the first / last
/// removed character (tab = 4; compared only when the text left of the marker is ASCII).
/// Returns the number of marker lines whose column was compared.
pub fn check_item_block(t: &str, start: usize, end: usize, block: &str) -> Result<usize, String> {
    let ls = split_lines(t);
    let l0 = line_of(&ls, start);
    let last = t[..end].char_indices().last().map(|x| x.0).unwrap_or(start);
    let l1 = ls.iter().position(|(s, e)| *s <= last && last <= *e).unwrap();
    let lines: Vec<&str> = block.split('\n').collect();
    let n_src = l1 - l0 + 1;
    if lines.len() != n_src + 2 {
        return Err(format!("{} lines in the block, expected {} source lines framed by two marker lines", lines.len(), n_src));
    }
    let width = |s: &str| -> usize { s.chars().map(|c| if c == '\t' { 4 } else { 1 }).sum() };
    let mut w: Option<usize> = None;
    for k in 0..n_src {
        let src = t[ls[l0 + k].0..ls[l0 + k].1].replace('\t', "    ");
        let line = lines[k + 1];
        let Some(prefix) = line.strip_suffix(src.as_str()) else {
            return Err(format!("line {} of the block {:?} does not show source line {} {:?}", k + 1, trunc(line, 80), l0 + k + 1, trunc(&src, 80)));
        };
        let pw = prefix.chars().count();
        match w {
            None => w = Some(pw),
            Some(x) if x != pw => return Err(format!("line-number column is not fixed-width ({} vs {} characters)", x, pw)),
            _ => {}
        }
        let digits: String = prefix.chars().filter(|c| c.is_ascii_digit()).collect();
        let runs = prefix.split(|c: char| !c.is_ascii_digit()).filter(|r| !r.is_empty()).count();
        if runs != 1 || digits != (l0 + k + 1).to_string() {
            return Err(format!("line {} of the block is labelled {:?}, expected line number {}", k + 1, prefix, l0 + k + 1));
        }
    }
    let w = w.unwrap_or(0);
    let mut compared = 0;
    for (line, word, left) in [(lines[0], "_start", &t[ls[l0].0..start]), (lines[n_src + 1], "‾end", &t[ls[l1].0..last])] {
        let body = line.trim_start_matches(' ');
        if body != word {
            return Err(format!("marker line {:?} is not spaces followed by {}", trunc(line, 80), word));
        }
        // (the marked character itself must be ASCII as well: the implementation counts bytes, and
        // what the column of / after a wide or combining character is, the property leaves open)
        let marked_ascii = word == "_start" || t[last..].chars().next().map(|c| c.is_ascii()).unwrap_or(true);
        if left.is_ascii() && marked_ascii {
            compared += 1;
            let col = line.len() - body.len();
            // a marked tab occupies four columns; which of them "its column" is, is left open
            let slack = if word == "‾end" && t[last..].starts_with('\t') { 3 } else { 0 };
            if col < w + width(left) || col > w + width(left) + slack {
                return Err(format!("{} marker in column {}, expected {} (prefix width {} + column {})", word, col, w + width(left), w, width(left)));
            }
        }
    }
    Ok(compared)
}

/// Split the pretty listing into item blocks (text after each header line, without the final
/// newline separators). Returns (index printed, status text, body).
pub fn split_pretty(pretty: &str) -> Option<Vec<(usize, bool, String)>> {
    // format: ("\n-------- [ N ]  Ready  --------\n" + item)* + "\n"
    let mut items = vec![];
    let body = pretty.strip_suffix('\n')?;
    if body.is_empty() {
        return Some(items);
    }
    let mut rest = body;
    while !rest.is_empty() {
        let r = rest.strip_prefix("\n-------- [ ")?;
        let close = r.find(" ]")?;
        let idx: usize = r[..close].parse().ok()?;
        let r2 = &r[close..];
        let (ready, r3) = if let Some(x) = r2.strip_prefix(" ]  Ready  --------\n") {
            (true, x)
        } else if let Some(x) = r2.strip_prefix(" ] Pending --------\n") {
            (false, x)
        } else {
            return None;
        };
        // item extends to the next header or the end
        let next = r3.find("\n-------- [ ").unwrap_or(r3.len());
        items.push((idx, ready, r3[..next].to_string()));
        rest = &r3[next..];
    }
    Some(items)
}

/// Highlighted text of one pretty item: everything between the status colour and reset,
/// joined by '\n'.
pub fn highlighted(item_body: &str, ready: bool) -> String {
    let start = if ready { "\x1b[31m" } else { "\x1b[33m" };
    let mut parts = vec![];
    let mut rest = item_body;
    while let Some(i) = rest.find(start) {
        let after = &rest[i + start.len()..];
        let Some(j) = after.find("\x1b[0m") else { break };
        parts.push(after[..j].to_string());
        rest = &after[j + 4..];
    }
    parts.join("\n")
}

pub struct ListReport {
    pub c15: V,
    pub c16: V,
    pub c17: V,
    pub panic: Option<(Entry, PanicInfo)>,
    pub n_ready_items: usize,
    pub n_pending_items: usize,
    pub n_markers: usize,
    pub events_seen: usize,
    pub marker_lines_compared: usize,
}

/// Documents of the C15 space. Runs clean, list (JSON, pretty, JSON again), list_all (JSON,
/// pretty) and judges C15 / C16 / C17.
pub fn list_check(rd: &Rendered, sp: &Sp, cfg: &Cfg, step: u8, c15_space: bool, has_cr: bool) -> ListReport {
    let t = &rd.text;
    let mut rep = ListReport {
        c15: V::NA,
        c16: V::NA,
        c17: V::NA,
        panic: None,
        n_ready_items: 0,
        n_pending_items: 0,
        n_markers: 0,
        events_seen: 0,
        marker_lines_compared: 0,
    };
    let Some(exp_all) = expected_regions(rd, step) else {
        rep.c15 = V::Skipped("unwrap element in unspecified geometry");
        rep.c16 = V::Skipped("unwrap element in unspecified geometry");
        rep.c17 = V::Skipped("unwrap element in unspecified geometry");
        return rep;
    };
    let exp_ready: Vec<Region> = exp_all.iter().filter(|r| r.ready).cloned().collect();
    macro_rules! run {
        ($e:expr) => {
            match api::call($e, t, sp, cfg) {
                Ok(x) => x,
                Err(p) => {
                    let m = format!("{} panicked: {} @ {}", $e.name(), trunc(&p.msg, 80), api::short_loc(&p.loc));
                    rep.c15 = V::Violated(m.clone());
                    rep.c16 = V::Violated(m.clone());
                    rep.c17 = V::Violated(m);
                    rep.panic = Some(($e, p));
                    return rep;
                }
            }
        };
    }
    let (lj1, ev_l1) = run!(Entry::ListJson);
    let (clean_out, ev_c) = run!(Entry::Clean);
    let (laj, ev_la) = run!(Entry::ListAllJson);
    let (lp, _) = run!(Entry::ListPretty);
    let (lap, _) = run!(Entry::ListAllPretty);
    let (lj2, _) = run!(Entry::ListJson);
    let _ = clean_out;
    rep.events_seen = ev_l1.len() + ev_c.len() + ev_la.len();

    // ---------------- C16 first (JSON validity is needed by the others)
    let items_l = parse_list_json(&lj1);
    let items_la = parse_list_json(&laj);
    let (items_l, items_la) = match (items_l, items_la) {
        (Ok(a), Ok(b)) => (a, b),
        (Err(m), _) | (_, Err(m)) => {
            rep.c16 = V::Violated(format!("JSON form: {m}"));
            rep.c15 = V::Skipped("JSON list not parseable (C16)");
            rep.c17 = V::Skipped("JSON list not parseable (C16)");
            return rep;
        }
    };
    rep.n_ready_items = items_la.iter().filter(|i| i.ready).count();
    rep.n_pending_items = items_la.iter().filter(|i| !i.ready).count();

    // documents with CR characters: JSON structure, line ranges and pretty/JSON agreement are
    // judged; the rendering of the lines themselves is not (what a CR looks like is unspecified)
    let mut c16 = V::Held;
    // items vs R-render of the region the item claims (regions taken from the hook markers when
    // available, else from the reference regions if counts agree)
    let markers_of = |evs: &[Event], all: bool| -> Option<Vec<(usize, usize, bool)>> {
        evs.iter().find_map(|e| match e {
            Event::ListMarkers { all: a, markers } if *a == all => {
                Some(markers.iter().map(|(s, e, _, r)| (*s, *e, *r)).collect())
            }
            _ => None,
        })
    };
    let mk_l = markers_of(&ev_l1, false);
    let mk_la = markers_of(&ev_la, true);
    for (items, pretty, mk, exp) in [
        (&items_l, &lp, &mk_l, &exp_ready),
        (&items_la, &lap, &mk_la, &exp_all),
    ] {
        if c16 != V::Held {
            break;
        }
        // which regions do the items describe? prefer the reference regions when they agree in
        // number and line ranges, so that C16 judges rendering only
        let regs: Vec<(usize, usize)> = if exp.len() == items.len()
            && exp
                .iter()
                .zip(items.iter())
                .all(|(r, it)| line_no(t, r.start) == it.first && line_no(t, r.end - 1) == it.last)
        {
            exp.iter().map(|r| (r.start, r.end)).collect()
        } else if let Some(m) = mk {
            if m.len() != items.len() {
                c16 = V::Violated(format!("{} items rendered for {} markers", items.len(), m.len()));
                break;
            }
            m.iter().map(|(s, e, _)| (*s, *e)).collect()
        } else {
            vec![]
        };
        for (it, (s, e)) in items.iter().zip(regs.iter()) {
            if e <= s || *e > t.len() || !t.is_char_boundary(*s) || !t.is_char_boundary(*e) {
                continue;
            }
            if has_cr {
                let (f, l) = (line_no(t, *s), line_no(t, e.saturating_sub(1).max(*s)));
                if (it.first, it.last) != (f, l) {
                    c16 = V::Violated(format!("line_range [{}, {}] of an item whose region spans lines {}..{}", it.first, it.last, f, l));
                    break;
                }
                continue;
            }
            match check_item_block(t, *s, *e, &it.block) {
                Ok(n) => {
                    rep.marker_lines_compared += n;
                    let (f, l) = (line_no(t, *s), line_no(t, e.saturating_sub(1).max(*s)));
                    if (it.first, it.last) != (f, l) {
                        c16 = V::Violated(format!("line_range [{}, {}] of an item that shows lines {}..{}", it.first, it.last, f, l));
                        break;
                    }
                }
                Err(m) => {
                    c16 = V::Violated(format!("item for region {}..{}: {} :: block {:?}", s, e, m, trunc(&it.block, 400)));
                    break;
                }
            }
        }
        if c16 != V::Held {
            break;
        }
        // pretty form with colour codes stripped == JSON code blocks, item by item: the blocks must
        // occur in the stripped pretty text in order, each starting at a line start; when the
        // header lines have the known format the whole text is compared exactly
        if has_cr {
            continue;
        }
        let stripped = strip_colors(pretty);
        let mut pos = 0usize;
        for (k, it) in items.iter().enumerate() {
            match stripped[pos..].find(it.block.as_str()) {
                Some(i) if pos + i == 0 || stripped.as_bytes()[pos + i - 1] == b'\n' => pos += i + it.block.len(),
                _ => {
                    c16 = V::Violated(format!(
                        "code block of item {} does not occur (in order, at a line start) in the pretty form with colour codes stripped: {:?} vs {:?}",
                        k + 1,
                        trunc(&it.block, 300),
                        trunc(&stripped, 300)
                    ));
                    break;
                }
            }
        }
        if c16 == V::Held {
            if let Some(blocks) = split_pretty(&stripped) {
                let same = blocks.len() == items.len()
                    && blocks.iter().zip(items.iter()).all(|((_, ready, body), it)| *ready == it.ready && *body == it.block);
                if !same {
                    c16 = V::Violated(format!(
                        "pretty form (colours stripped) and JSON form differ item by item: {:?} vs {} JSON items",
                        trunc(&stripped, 300),
                        items.len()
                    ));
                }
            }
        }
    }
    if items_la.is_empty() && items_l.is_empty() && c16 == V::Held {
        c16 = V::NA;
    }
    rep.c16 = c16;

    // ---------------- C15
    if c15_space {
        let refr: Vec<(usize, usize)> = exp_ready.iter().map(|r| (r.start, r.end)).collect();
        let cm: Option<Vec<(usize, usize)>> = ev_c.iter().find_map(|e| match e {
            Event::CleanMarkers { markers, .. } => Some(markers.iter().map(|(s, e, _)| (*s, *e)).collect()),
            _ => None,
        });
        // the markers are "what clean deletes" only if clean really deleted exactly them
        let lengths_ok = ev_c.iter().all(|e| match e {
            Event::CleanMarkers { markers, source_len, removed_len } => {
                let total: usize = markers.iter().map(|(s, e, _)| e.saturating_sub(*s)).sum();
                source_len.checked_sub(total) == Some(*removed_len)
            }
            _ => true,
        });
        rep.n_markers = cm.as_ref().map(|m| m.len()).unwrap_or(0);
        let mut v = V::Held;
        let want: Vec<(usize, usize)> = refr.iter().map(|(s, e)| (line_no(t, *s), line_no(t, e.saturating_sub(1).max(*s)))).collect();
        let got: Vec<(usize, usize)> = items_l.iter().map(|i| (i.first, i.last)).collect();
        if lj1 != lj2 {
            v = V::Violated("list is not a pure function: two calls with a clean and a list_all in between differ".into());
        } else if items_l.iter().any(|i| !i.ready) {
            v = V::Violated("plain list contains a Pending item".into());
        } else if got != want {
            v = V::Violated(format!(
                "list items (first line, last line) {:?} != regions of the ready elements {:?} (one per default-strategy element, two per unwrapped element, none nested)",
                got, want
            ));
        } else if !has_cr {
            // highlighted text == text of the regions (tabs shown as four spaces)
            let hl = highlighted_spans(&lp).join("\n");
            let regions: Vec<String> = refr.iter().map(|(s, e)| t[*s..*e].replace('\t', "    ")).collect();
            let all = regions.join("\n");
            if hl != all {
                v = V::Violated(format!(
                    "highlighted text {:?} != text of the regions {:?}",
                    trunc(&hl, 300),
                    trunc(&all, 300)
                ));
            }
        }
        // clean side: the bytes clean deletes before whitespace tidying are exactly those regions
        if v == V::Held {
            match &cm {
                None => {}
                Some(cm) => {
                    if union(cm.clone()) != union(refr.clone()) {
                        v = V::Violated(format!(
                            "clean deletes {:?} before whitespace tidying, but the listed / reference regions are {:?}",
                            cm, refr
                        ));
                    } else if !lengths_ok {
                        v = V::Violated("the text clean deleted before whitespace tidying is not exactly the marked regions (lengths do not add up)".into());
                    }
                }
            }
        }
        if v == V::Held && exp_ready.is_empty() {
            v = V::NA;
        }
        rep.c15 = v;
    } else {
        rep.c15 = V::Skipped("outside the C15 space");
    }

    // ---------------- C17
    {
        let got: Vec<(usize, usize, bool)> = items_la.iter().map(|i| (i.first, i.last, i.ready)).collect();
        let want: Vec<(usize, usize, bool)> = exp_all
            .iter()
            .map(|r| (line_no(t, r.start), line_no(t, r.end - 1), r.ready))
            .collect();
        let ready_sub: Vec<&Item> = items_la.iter().filter(|i| i.ready).collect();
        let mut v = V::Held;
        if got != want {
            let mut gs = got.clone();
            gs.sort();
            let mut ws = want.clone();
            ws.sort();
            v = V::Violated(format!(
                "list_all items {:?} != expected {:?}{}",
                got,
                want,
                if gs == ws { " (same items, wrong order)" } else { "" }
            ));
        } else if ready_sub.len() != items_l.len()
            || ready_sub.iter().zip(items_l.iter()).any(|(a, b)| **a != *b)
        {
            v = V::Violated("Ready items of list_all differ from the plain list".into());
        }
        if v == V::Held && !exp_all.iter().any(|r| !r.ready) {
            v = V::NA; // no pending region: C17 premise (beyond C15) not exercised
        }
        rep.c17 = v;
    }
    rep
}

/// C17 as a law over the regions the implementation itself reports (hook events of one list_all
/// call), independent of any geometry model: every region of an element that was decided
/// "registered, condition does not hold" is either listed as Pending (possibly as part of a larger
/// Pending region) or lies wholly inside a listed Ready region; no listed Pending region lies
/// wholly inside a listed Ready region or another listed Pending region; listed Pending regions are
/// made of pending elements' regions; statuses of the JSON items follow the markers; the Ready
/// items are the plain list. Returns (verdict, pending regions seen, pending regions listed).
pub fn c17_law(text: &str, sp: &Sp, cfg: &Cfg) -> (V, usize, usize) {
    let (laj, ev) = match api::call(Entry::ListAllJson, text, sp, cfg) {
        Ok(x) => x,
        Err(p) => return (V::Violated(format!("list_all panicked: {} @ {}", trunc(&p.msg, 80), api::short_loc(&p.loc))), 0, 0),
    };
    let lj = match api::call(Entry::ListJson, text, sp, cfg) {
        Ok((x, _)) => x,
        Err(p) => return (V::Violated(format!("list panicked: {} @ {}", trunc(&p.msg, 80), api::short_loc(&p.loc))), 0, 0),
    };
    let Some(markers) = ev.iter().find_map(|e| match e {
        Event::ListMarkers { all: true, markers } => Some(markers.clone()),
        _ => None,
    }) else {
        return (V::Skipped("no hook events (built without hooks)"), 0, 0);
    };
    let ready_m: Vec<(usize, usize)> = markers.iter().filter(|m| m.3).map(|m| (m.0, m.1)).collect();
    let pend_m: Vec<(usize, usize)> = markers.iter().filter(|m| !m.3).map(|m| (m.0, m.1)).collect();
    let mut pend_regs: Vec<(usize, usize)> = vec![];
    for e in &ev {
        if let Event::Decision { outcome: Some((a, b, false)), .. } = e {
            pend_regs.push(*a);
            if let Some(b) = b {
                pend_regs.push(*b);
            }
        }
    }
    let inside = |x: &(usize, usize), y: &(usize, usize)| y.0 <= x.0 && x.1 <= y.1;
    for p in &pend_regs {
        if !ready_m.iter().any(|r| inside(p, r)) && !pend_m.iter().any(|q| inside(p, q)) {
            return (
                V::Violated(format!(
                    "the region {:?} of an element whose condition does not hold is neither listed as Pending nor wholly inside a listed region (listed: {:?})",
                    p, markers
                )),
                pend_regs.len(),
                pend_m.len(),
            );
        }
    }
    for (k, q) in pend_m.iter().enumerate() {
        if ready_m.iter().any(|r| inside(q, r)) {
            return (V::Violated(format!("Pending region {:?} is listed although it lies wholly inside a listed Ready region (listed: {:?})", q, markers)), pend_regs.len(), pend_m.len());
        }
        if pend_m.iter().enumerate().any(|(j, o)| j != k && inside(q, o)) {
            return (V::Violated(format!("Pending region {:?} is listed although it lies wholly inside another listed Pending region (listed: {:?})", q, markers)), pend_regs.len(), pend_m.len());
        }
        if !pend_regs.iter().any(|p| p.0 == q.0) || !pend_regs.iter().any(|p| p.1 == q.1) {
            return (V::Violated(format!("listed Pending region {:?} is not made of regions of pending elements {:?}", q, pend_regs)), pend_regs.len(), pend_m.len());
        }
    }
    let (items_la, items_l) = match (parse_list_json(&laj), parse_list_json(&lj)) {
        (Ok(a), Ok(b)) => (a, b),
        _ => return (V::Skipped("JSON list not parseable (C16)"), pend_regs.len(), pend_m.len()),
    };
    if items_la.len() != markers.len() || items_la.iter().zip(markers.iter()).any(|(i, m)| i.ready != m.3) {
        return (V::Violated(format!("list_all shows {} items for {} regions, or with other statuses", items_la.len(), markers.len())), pend_regs.len(), pend_m.len());
    }
    let ready_sub: Vec<&Item> = items_la.iter().filter(|i| i.ready).collect();
    if ready_sub.len() != items_l.len() || ready_sub.iter().zip(items_l.iter()).any(|(a, b)| **a != *b) {
        return (V::Violated("Ready items of list_all differ from the plain list".into()), pend_regs.len(), pend_m.len());
    }
    if pend_regs.is_empty() {
        return (V::NA, 0, pend_m.len());
    }
    (V::Held, pend_regs.len(), pend_m.len())
}
