//! Small deterministic utilities: PRNG, 64-bit hashing, odometer enumeration.

#[derive(Clone, Debug)]
pub struct Rng(pub u64);

impl Rng {
    pub fn new(seed: u64) -> Self {
        Rng(seed.wrapping_mul(0x9E3779B97F4A7C15) ^ 0xD1B54A32D192ED03)
    }
    /// Independent stream for (seed, stream id, index).
    pub fn for_case(seed: u64, stream: u64, index: u64) -> Self {
        let mut r = Rng::new(seed ^ stream.wrapping_mul(0xA24BAED4963EE407));
        let a = r.next();
        Rng::new(a ^ index.wrapping_mul(0x9FB21C651E98DF25))
    }
    #[allow(clippy::should_implement_trait)]
    pub fn next(&mut self) -> u64 {
        self.0 = self.0.wrapping_add(0x9E3779B97F4A7C15);
        let mut z = self.0;
        z = (z ^ (z >> 30)).wrapping_mul(0xBF58476D1CE4E5B9);
        z = (z ^ (z >> 27)).wrapping_mul(0x94D049BB133111EB);
        z ^ (z >> 31)
    }
    pub fn below(&mut self, n: usize) -> usize {
        if n == 0 {
            return 0;
        }
        (self.next() % (n as u64)) as usize
    }
    pub fn range(&mut self, lo: usize, hi_incl: usize) -> usize {
        lo + self.below(hi_incl - lo + 1)
    }
    pub fn chance(&mut self, num: usize, den: usize) -> bool {
        self.below(den) < num
    }
    pub fn pick<'a, T>(&mut self, xs: &'a [T]) -> &'a T {
        &xs[self.below(xs.len())]
    }
    pub fn shuffle<T>(&mut self, xs: &mut [T]) {
        for i in (1..xs.len()).rev() {
            let j = self.below(i + 1);
            xs.swap(i, j);
        }
    }
}

/// FNV-1a 64 with a final avalanche; used only to count distinct inputs.
pub fn hash64(parts: &[&[u8]]) -> u64 {
    let mut h: u64 = 0xcbf29ce484222325;
    for p in parts {
        for b in p.iter() {
            h ^= *b as u64;
            h = h.wrapping_mul(0x100000001b3);
        }
        h ^= 0xff;
        h = h.wrapping_mul(0x100000001b3);
    }
    h ^= h >> 33;
    h = h.wrapping_mul(0xff51afd7ed558ccd);
    h ^= h >> 33;
    h
}

pub fn hash_str(s: &str) -> u64 {
    hash64(&[s.as_bytes()])
}

/// Odometer over `len` digits in base `base`. Calls `f` with every index vector whose
/// linear rank r satisfies r % nshards == shard. Returns the number of vectors visited.
pub fn enumerate_sharded<F: FnMut(&[usize])>(
    base: usize,
    len: usize,
    shard: u64,
    nshards: u64,
    mut f: F,
) -> u64 {
    let mut idx = vec![0usize; len];
    let mut rank: u64 = 0;
    let mut visited = 0;
    loop {
        if rank % nshards == shard {
            f(&idx);
            visited += 1;
        }
        rank += 1;
        // increment
        let mut k = len;
        loop {
            if k == 0 {
                return visited;
            }
            k -= 1;
            idx[k] += 1;
            if idx[k] < base {
                break;
            }
            idx[k] = 0;
        }
    }
}

pub fn trunc(s: &str, n: usize) -> String {
    if s.chars().count() <= n {
        s.to_string()
    } else {
        let mut t: String = s.chars().take(n).collect();
        t.push('…');
        t
    }
}

pub fn is_ws(c: char) -> bool {
    c == ' ' || c == '\t' || c == '\n'
}

pub fn nonws(s: &str) -> String {
    s.chars().filter(|c| !is_ws(*c)).collect()
}

pub fn is_subseq(small: &str, big: &str) -> bool {
    let mut it = big.chars();
    'o: for c in small.chars() {
        for d in it.by_ref() {
            if d == c {
                continue 'o;
            }
        }
        return false;
    }
    true
}

/// `out` obtainable from `r` by deleting only ' ', '\t', '\n' (greedy two-pointer; exact for
/// class-restricted deletions because a kept whitespace char can always be matched greedily).
pub fn ws_deletion_only(r: &str, out: &str) -> bool {
    let rc: Vec<char> = r.chars().collect();
    let oc: Vec<char> = out.chars().collect();
    let (mut i, mut j) = (0, 0);
    while i < rc.len() {
        if j < oc.len() && rc[i] == oc[j] {
            i += 1;
            j += 1;
        } else if is_ws(rc[i]) {
            i += 1;
        } else {
            return false;
        }
    }
    j == oc.len()
}
