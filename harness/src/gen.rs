//! Workload generators other than the random AST generator in `doc`: spelling pool, junk
//! documents behind the admission gate, bounded-exhaustive seam / unwrap layouts, mutations.

use crate::api::{Cfg, Sp};
use crate::doc::*;
use crate::refmodel::{self, rscan, rtag};
use crate::util::Rng;

pub const DELIMS: [(&str, &str); 18] = [
    ("<!-- <", "> -->"),
    ("/* <", "> */"),
    ("// --", "-- //"),
    ("<", ">"),
    ("[[", "]]"),
    ("<<", ">>"),
    ("|", "|"),
    ("«", "»"),
    ("⟦🎈", "🎈⟧"),
    ("{% ", " %}"),
    ("$", "^"),
    ("\\", "\\\\"),
    ("(*", "*)"),
    ("aab", "bba"),
    ("#<", ">#"),
    ("=<", ">="),
    ("'<", ">'"),
    ("e\u{301}<", ">e\u{301}"),
];

/// Further delimiter pairs for the tokenizer monitors only (C07 / C08): prefixes of each other,
/// the end delimiter occurring inside the start delimiter, blanks and line breaks.
pub const TOK_EXTRA_DELIMS: [(&str, &str); 8] = [
    ("<<", "<"),
    ("<", "<<"),
    ("ab", "b"),
    ("[x]", "]"),
    ("\n", "\n"),
    (" ", " "),
    ("--", "-"),
    ("<", "/>"),
];

pub const TAG_NAMES: [(&str, &str); 5] = [
    ("time-limited", "removal-marker"),
    ("tl", "m"),
    ("期限", "印"),
    ("t.l", "r+m"),
    ("T", "t"),
];

pub fn spelling(di: usize, ni: usize) -> Sp {
    let (ds, de) = DELIMS[di % DELIMS.len()];
    let (tl, mk) = TAG_NAMES[ni % TAG_NAMES.len()];
    Sp::new(ds, de, tl, mk)
}

pub fn default_sp() -> Sp {
    Sp::new("/* <", "> */", "time-limited", "marker")
}

pub fn short_sp() -> Sp {
    Sp::new("<", ">", "tl", "m")
}

/// Words that contain none of the non-space characters of the given delimiters.
pub fn words_for(sps: &[&Sp]) -> Vec<&'static str> {
    let mut bad: Vec<char> = vec![];
    for sp in sps {
        bad.extend(sp.ds.chars().chain(sp.de.chars()).filter(|c| *c != ' '));
    }
    let mut v: Vec<&'static str> = WORDS
        .iter()
        .chain(SAFE_WORDS.iter())
        .copied()
        .filter(|w| !w.chars().any(|c| bad.contains(&c)))
        .collect();
    if v.is_empty() {
        v.push("x");
    }
    v
}

// ------------------------------------------------------------------ junk documents

/// Turn an arbitrary text into a `Rendered` by the reference pipeline (R-scan, R-tag, R-pair,
/// R-ready). Err(reason) => not admitted: the property text does not determine the behaviour.
pub fn admit(text: &str, sp: &Sp, cfg: &Cfg) -> Result<Rendered, &'static str> {
    let toks = rscan(text, &sp.ds, &sp.de);
    if toks != refmodel::rautomaton(text, &sp.ds, &sp.de) {
        return Err("tag recognition in dispute (KF-C08)");
    }
    let now = refmodel::parse_rfc3339(&cfg.now).ok_or("harness: now not canonical")?;
    let mut tags: Vec<Option<refmodel::RTag>> = vec![];
    for (a, b, el) in &toks {
        if *el {
            let body = &text[a + sp.ds.len()..b - sp.de.len()];
            match rtag(body) {
                Some(t) => {
                    let mut names: Vec<&str> = t.1.iter().map(|a| a.0.as_str()).collect();
                    names.sort();
                    if names.windows(2).any(|w| w[0] == w[1]) {
                        return Err("duplicate attribute name");
                    }
                    tags.push(Some(t));
                }
                None => return Err("tag outside the C09 grammar"),
            }
        } else {
            tags.push(None);
        }
    }
    let names: Vec<Option<String>> = tags.iter().map(|t| t.as_ref().map(|t| t.0.clone())).collect();
    let Some(pairs) = refmodel::rpair_checked(&names) else {
        return Err("a `//name` tag while `name` or `/name` is open (which element it closes is unspecified)");
    };
    // build elements in order of opening tag; parents by containment
    let mut elems: Vec<ElemInfo> = vec![];
    let mut by_open: Vec<(usize, usize)> = pairs.clone();
    by_open.sort();
    for (o, c) in by_open {
        let (name, attrs) = tags[o].as_ref().unwrap();
        let kind = if *name == sp.tl {
            Kind::Tl
        } else if *name == sp.mk {
            Kind::Mk
        } else {
            Kind::Unreg
        };
        let skip = attrs.iter().any(|a| a.0 == "skip");
        let unwrap = attrs.iter().any(|a| a.0 == "unwrap-block");
        let cond = match kind {
            Kind::Tl => match attrs.iter().find(|a| a.0 == "to") {
                Some((_, Some(v))) => match refmodel::rtime_ready(v, &cfg.offset, now) {
                    Some(b) => b,
                    None => {
                        if v.is_empty() {
                            false
                        } else {
                            return Err("`to` value outside the canonical form");
                        }
                    }
                },
                _ => false,
            },
            Kind::Mk => match attrs.iter().find(|a| a.0 == "name") {
                Some((_, Some(v))) => cfg.targets.iter().any(|t| t == v),
                _ => false,
            },
            Kind::Unreg => false,
        };
        let open = (toks[o].0, toks[o].1);
        let close = (toks[c].0, toks[c].1);
        let id = elems.len();
        let parent = elems
            .iter()
            .rev()
            .find(|p| p.open.0 < open.0 && close.1 <= p.close.0)
            .map(|p| p.id);
        let depth = parent.map(|p| elems[p].depth + 1).unwrap_or(0);
        elems.push(ElemInfo {
            id,
            parent,
            kind,
            level: if cond { 1 } else { 5 },
            skip,
            unwrap,
            open,
            close,
            depth,
        });
    }
    Ok(Rendered {
        text: text.to_string(),
        elems,
    })
}

/// Pipeline atom alphabet for a spelling (ready default / ready unwrap / pending / skip /
/// closers / blank-body tag / stray delimiters / filler).
pub fn pipeline_atoms(sp: &Sp) -> Vec<String> {
    let (ds, de) = (&sp.ds, &sp.de);
    vec![
        format!("{ds}{} name='feat-a'{de}", sp.mk),
        format!("{ds}/{}{de}", sp.mk),
        format!("{ds}{} name='zzz'{de}", sp.mk),
        format!("{ds}{} to='2000-01-01 00:00:00'{de}", sp.tl),
        format!("{ds}/{}{de}", sp.tl),
        format!("{ds}{} name='feat-a' unwrap-block{de}", sp.mk),
        format!("{ds}{} skip name='feat-a'{de}", sp.mk),
        "x".to_string(),
        "\n".to_string(),
        " ".to_string(),
        "あ".to_string(),
        ds.to_string(),
        de.to_string(),
        format!("{ds} {de}"),
    ]
}

/// Hostile atoms for totality: biased towards tags on wrapper lines and line structure.
pub fn hostile_atoms(sp: &Sp) -> Vec<String> {
    let (ds, de) = (&sp.ds, &sp.de);
    vec![
        format!("{ds}{} name='feat-a'{de}", sp.mk),
        format!("{ds}{} name='feat-a' unwrap-block{de}", sp.mk),
        format!("{ds}/{}{de}", sp.mk),
        format!("{ds}{} name='zzz'{de}", sp.mk),
        format!("{ds}{} name='zzz' unwrap-block{de}", sp.mk),
        format!("{ds}{} to='2000-01-01 00:00:00' unwrap-block{de}", sp.tl),
        format!("{ds}{} to='2999-01-01 00:00:00'{de}", sp.tl),
        format!("{ds}/{}{de}", sp.tl),
        format!("{ds}{} to='2024年12月31日 23:59:59'{de}", sp.tl),
        format!("{ds}{} to=\"来週の金曜日まで\" c='C:\\dir\\'{de}", sp.tl),
        format!("{ds}{} name='日本' skip{de}", sp.mk),
        "x".to_string(),
        "\n".to_string(),
        "\n".to_string(),
        "\n".to_string(),
        "  ".to_string(),
        "あ".to_string(),
        "\t".to_string(),
        "🎈".to_string(),
        format!("{ds} {de}"),
        "\r\n".to_string(),
    ]
}

/// Tokenizer atom alphabet: delimiters, every proper prefix and suffix, every delimiter char,
/// filler incl. 2-, 3-, 4-byte characters.
pub fn tokenizer_atoms(ds: &str, de: &str) -> Vec<String> {
    let mut alpha: Vec<String> = vec![ds.to_string(), de.to_string()];
    for d in [ds, de] {
        let cs: Vec<char> = d.chars().collect();
        for k in 1..cs.len() {
            alpha.push(cs[..k].iter().collect());
            alpha.push(cs[k..].iter().collect());
        }
        for c in cs {
            alpha.push(c.to_string());
        }
    }
    alpha.extend(["x", "\n", " ", "é", "あ", "🎈"].iter().map(|s| s.to_string()));
    alpha.sort();
    alpha.dedup();
    alpha
}

// ------------------------------------------------------------------ AST helpers

pub fn text(s: impl Into<String>) -> Piece {
    Piece::Text(s.into())
}

pub fn elem(kind: Kind, level: u8, skip: bool, unwrap: bool, style: u64, children: Vec<Piece>) -> Piece {
    Piece::Elem(Elem {
        kind,
        level,
        skip,
        unwrap,
        style,
        children,
    })
}

/// Set every default-strategy element that is not nested inside an unwrap element to
/// "condition does not hold" (used by the C11 / C12 workloads).
pub fn demote_default_outside_unwrap(ps: &mut [Piece], inside_unwrap: bool) {
    for p in ps.iter_mut() {
        if let Piece::Elem(e) = p {
            if !e.unwrap && !inside_unwrap && e.level <= STEP {
                e.level = 5;
            }
            let inside = inside_unwrap || e.unwrap;
            demote_default_outside_unwrap(&mut e.children, inside);
        }
    }
}

/// Lines between the tags of an element that has only text children (None: has child elements).
pub fn text_lines_between(e: &Elem) -> Option<usize> {
    let mut n = 0;
    for c in &e.children {
        match c {
            Piece::Text(t) => n += t.matches('\n').count(),
            Piece::Elem(_) => return None,
        }
    }
    Some(n.saturating_sub(1))
}

/// Force every element to "not ready" in one of the possible ways. Unwrap-blocks that cannot be
/// unwrapped (fewer than two lines between the tags) keep a satisfied condition: they are one of
/// the "nothing is ready" classes of C04.
pub fn make_nothing_ready(ps: &mut [Piece], r: &mut Rng) {
    for p in ps.iter_mut() {
        if let Piece::Elem(e) = p {
            let short_unwrap = e.unwrap && matches!(text_lines_between(e), Some(k) if k < 2);
            if short_unwrap {
                continue;
            }
            if e.level <= STEP && !e.skip && e.kind != Kind::Unreg {
                match r.below(3) {
                    0 => e.level = STEP + 1 + r.below((5 - STEP) as usize) as u8,
                    1 => e.skip = true,
                    _ => e.kind = Kind::Unreg,
                }
            }
            make_nothing_ready(&mut e.children, r);
        }
    }
}

// ------------------------------------------------------------------ G-seam (C13 / C14 / C04)

#[derive(Clone, Debug)]
pub struct SeamParams {
    pub b: usize,
    pub a: usize,
    pub flavour: usize, // 0 empty, 1 spaces, 2 tab
    pub indent: usize,  // units
    pub before: bool,
    pub after: bool,
    pub parent: bool,
    pub final_nl: bool,
    pub second: usize, // 0 none, 1 adjacent, 2 separated
    pub body: usize,   // body lines of the block
    pub ready: bool,
}

pub const SEAM_DIMS: [usize; 10] = [5, 5, 3, 3, 2, 2, 2, 2, 3, 2];

/// Random seam layout outside the exhaustive box: b, a up to 12, tag indent up to 6 units.
pub fn seam_params_wide(r: &mut Rng, ready: bool) -> SeamParams {
    SeamParams {
        b: if r.chance(1, 2) { r.range(5, 12) } else { r.below(5) },
        a: if r.chance(1, 2) { r.range(5, 12) } else { r.below(5) },
        flavour: r.below(3),
        indent: r.below(7),
        before: r.chance(3, 4),
        after: r.chance(3, 4),
        parent: r.chance(1, 3),
        final_nl: r.chance(1, 2),
        second: r.below(3),
        body: r.below(2),
        ready,
    }
}

impl SeamParams {
    pub fn from_index(idx: &[usize], ready: bool) -> SeamParams {
        SeamParams {
            b: idx[0],
            a: idx[1],
            flavour: idx[2],
            indent: idx[3],
            before: idx[4] == 1,
            after: idx[5] == 1,
            parent: idx[6] == 1,
            final_nl: idx[7] == 1,
            second: idx[8],
            body: idx[9],
            ready,
        }
    }
    pub fn count() -> u64 {
        SEAM_DIMS.iter().map(|d| *d as u64).product()
    }
    pub fn from_rank(mut rank: u64, ready: bool) -> SeamParams {
        let mut idx = [0usize; 10];
        for k in (0..10).rev() {
            idx[k] = (rank % SEAM_DIMS[k] as u64) as usize;
            rank /= SEAM_DIMS[k] as u64;
        }
        SeamParams::from_index(&idx, ready)
    }
}

/// Build the seam layout as a list of lines (pieces are rendered line by line).
pub fn seam_doc(p: &SeamParams, unit: &str, words: &[&'static str]) -> Vec<Piece> {
    let ind = unit.repeat(p.indent);
    let blank = match p.flavour {
        0 => String::new(),
        1 => "  ".to_string(),
        _ => "\t".to_string(),
    };
    let w = |k: usize| words[k % words.len()];
    // lines: Vec<Vec<Piece>>; joined with "\n"
    let mut lines: Vec<Vec<Piece>> = vec![];
    let level = if p.ready { 1 } else { 5 };
    let block = |style: u64, nbody: usize| -> Vec<Piece> {
        let mut ch: Vec<Piece> = vec![];
        for k in 0..nbody {
            ch.push(text(format!("\n{ind}{}{}", unit, w(k + 3))));
        }
        ch.push(text(format!("\n{ind}")));
        vec![text(ind.clone()), elem(Kind::Tl, level, false, false, style, ch)]
    };
    if p.before {
        // every third layout: trailing blanks on the neighbouring line (must survive byte-for-byte)
        let trail = match (p.b + p.a + p.indent + p.body) % 3 {
            0 => " ",
            1 => "",
            _ => if p.flavour == 2 { "\t" } else { "" },
        };
        lines.push(vec![text(format!("{ind}{}{trail}", w(0)))]);
    }
    for _ in 0..p.b {
        lines.push(vec![text(blank.clone())]);
    }
    lines.push(block(11, p.body));
    for _ in 0..p.a {
        lines.push(vec![text(blank.clone())]);
    }
    match p.second {
        1 => {
            lines.push(block(12, 1));
        }
        2 => {
            lines.push(vec![text(format!("{ind}{}", w(1)))]);
            lines.push(block(12, 1));
        }
        _ => {}
    }
    if p.after {
        lines.push(vec![text(format!("{ind}{}", w(2)))]);
    }
    let mut inner: Vec<Piece> = vec![];
    for (i, l) in lines.into_iter().enumerate() {
        if i > 0 {
            inner.push(text("\n"));
        }
        inner.extend(l);
    }
    let mut doc = if p.parent {
        let mut ch = vec![text("\n")];
        ch.extend(inner);
        ch.push(text(format!("\n{ind}")));
        vec![
            text(format!("top\n{ind}")),
            elem(Kind::Mk, 5, false, false, 13, ch),
            text("\nbottom"),
        ]
    } else {
        inner
    };
    if p.final_nl {
        doc.push(text("\n"));
    }
    doc
}

// ------------------------------------------------------------------ G-unwrap (C11 / C12)

#[derive(Clone, Debug)]
pub struct UnwrapParams {
    pub k: usize,          // lines between the tags 0..=6
    pub unit: usize,       // 0: 2 spaces, 1: 4 spaces, 2: tab
    pub tag_indent: usize, // 0..=2 units
    pub first_rel: usize,  // 0: one unit below tag (clamped), 1: at, 2: +1, 3: +2
    pub first_line: bool,  // block on line 1
    pub wrapper: usize,    // 0 code, 1 blank, 2 ws-only, 3 multibyte
}

pub const UNWRAP_DIMS: [usize; 6] = [7, 5, 3, 4, 2, 4];
/// indentation units: 2 spaces, 4 spaces, tab, and two mixed ones (space-then-tab, tab-then-space)
pub const UNITS: [&str; 5] = ["  ", "    ", "\t", " \t", "\t "];
/// wide units for the "big" documents (9, 17, 40 and 300 columns, 20 tabs)
pub const WIDE_UNITS: [&str; 5] = [
    "         ",
    "                 ",
    "                                        ",
    "                                                                                                                                                                                                                                                                                                            ",
    "\t\t\t\t\t\t\t\t\t\t\t\t\t\t\t\t\t\t\t\t",
];

/// A "big" document: wide indentation, many siblings, deep nesting, long lines, long blank runs,
/// pushed down by a filler prefix so that byte offsets and line numbers cross 255 / 4096 /
/// 65 535 / powers of ten. Returns the pieces; the caller renders them.
pub fn gen_big_doc(r: &mut Rng, sp: &Sp, inline: bool, unwrap: bool) -> Vec<Piece> {
    let unit = if r.chance(1, 2) { *r.pick(&WIDE_UNITS) } else { *r.pick(&UNITS) };
    let mut gc = GenCfg::block(unit);
    gc.words = words_for(&[sp]);
    gc.avoid = sp.ds.chars().chain(sp.de.chars()).filter(|c| *c != ' ').collect();
    gc.big = true;
    gc.allow_inline = inline;
    gc.allow_unwrap = unwrap;
    gc.leading_lb = false;
    match r.below(3) {
        0 => {
            // many siblings, shallow
            gc.max_items = *r.pick(&[260usize, 600, 1100]);
            gc.max_depth = 1;
        }
        1 => {
            // deep nesting
            gc.max_items = 12;
            gc.max_depth = r.range(5, 9);
        }
        _ => {
            gc.max_items = 40;
            gc.max_depth = 3;
        }
    }
    let mut d = gen_block_doc(r, &gc);
    // filler prefix: lines and bytes before the first tag
    let (n_lines, width) = *r.pick(&[(0usize, 0usize), (0, 0), (254, 3), (999, 2), (4095, 20), (9_998, 4), (70, 1000), (16_400, 3)]);
    if n_lines > 0 {
        let line = format!("{}\n", "f".repeat(width));
        d.insert(0, text(line.repeat(n_lines)));
    }
    d
}

impl UnwrapParams {
    pub fn count() -> u64 {
        UNWRAP_DIMS.iter().map(|d| *d as u64).product()
    }
    pub fn from_rank(mut rank: u64) -> UnwrapParams {
        let mut idx = [0usize; 6];
        for k in (0..6).rev() {
            idx[k] = (rank % UNWRAP_DIMS[k] as u64) as usize;
            rank /= UNWRAP_DIMS[k] as u64;
        }
        UnwrapParams {
            k: idx[0],
            unit: idx[1],
            tag_indent: idx[2],
            first_rel: idx[3],
            first_line: idx[4] == 1,
            wrapper: idx[5],
        }
    }
}

/// One unwrap layout. Inner lines (k-2 of them) are drawn from `r`: code at various indents,
/// blank, whitespace-only, multi-byte, nested default-strategy elements (ready / pending), and
/// with `depth` > 1 a nested unwrap block (regular indentation).
pub fn unwrap_doc(p: &UnwrapParams, r: &mut Rng, depth: usize, allow_l1_indent: bool) -> Vec<Piece> {
    let unit = UNITS[p.unit];
    let mut doc: Vec<Piece> = vec![];
    let first_line = p.first_line && (p.tag_indent == 0 || allow_l1_indent);
    if !first_line {
        doc.push(text(format!("{}head();\n", unit.repeat(p.tag_indent))));
    }
    doc.push(text(unit.repeat(p.tag_indent)));
    // input class of KF-C12-L1 (indented opening tag on line 1): only in its simple form, without
    // nested ready elements, where the model of the known finding is exact
    let _l1_class = first_line && p.tag_indent > 0;
    doc.push(unwrap_elem(p, r, depth, p.tag_indent, 1, true));
    match r.below(3) {
        0 => {}
        1 => doc.push(text("\n")),
        _ => doc.push(text(format!("\n{}tail();\n", unit.repeat(p.tag_indent)))),
    }
    doc
}

fn unwrap_elem(p: &UnwrapParams, r: &mut Rng, depth: usize, tag_indent: usize, level: u8, nested_ready: bool) -> Piece {
    let unit = UNITS[p.unit];
    let ind = unit.repeat(tag_indent);
    let mut ch: Vec<Piece> = vec![];
    let wrapper = |which: usize, r: &mut Rng| -> String {
        match p.wrapper {
            0 => format!("{ind}{}", if which == 0 { "if (cond) {" } else { "}" }),
            1 => String::new(),
            2 => {
                if r.chance(1, 2) {
                    ind.clone() + " "
                } else {
                    "\t".to_string()
                }
            }
            _ => format!("{ind}{}", if which == 0 { "もし (条件) {" } else { "} // 終" }),
        }
    };
    if p.k == 1 {
        // the single line between the tags: code, empty, whitespace-only or multi-byte
        ch.push(text(match p.wrapper {
            0 => format!("\n{ind}only();"),
            1 => "\n".to_string(),
            2 => format!("\n{ind} "),
            _ => format!("\n{ind}ひとつ();"),
        }));
    } else if p.k >= 2 {
        ch.push(text(format!("\n{}", wrapper(0, r))));
        let first_indent = match p.first_rel {
            0 => tag_indent.saturating_sub(1),
            1 => tag_indent,
            2 => tag_indent + 1,
            _ => tag_indent + 2,
        };
        let n_inner = p.k - 2;
        let mut nested_budget = depth.saturating_sub(1);
        for i in 0..n_inner {
            let li = if i == 0 {
                first_indent
            } else {
                match r.below(6) {
                    0 => first_indent.saturating_sub(1),
                    1 => first_indent + 1,
                    2 => tag_indent,
                    3 => 0,
                    _ => first_indent,
                }
            };
            let lind = unit.repeat(li);
            match r.below(12) {
                0 => ch.push(text("\n")),
                1 => ch.push(text(format!("\n{lind}"))),
                2 => ch.push(text(format!("\n{lind}こんにちは();"))),
                3 | 4 => {
                    // nested default-strategy element, ready or pending
                    let lvl = if nested_ready && r.chance(1, 2) { 1 } else { 5 };
                    let body = vec![
                        text(format!("\n{lind}{unit}gone();")),
                        text(format!("\n{lind}")),
                    ];
                    ch.push(text(format!("\n{lind}")));
                    ch.push(elem(Kind::Mk, lvl, false, false, r.next(), body));
                }
                5 if nested_budget > 0 && n_inner >= 1 => {
                    nested_budget -= 1;
                    // nested unwrap block with regular indentation: tag at li, body one unit deeper
                    let q = UnwrapParams {
                        k: 2 + r.below(3),
                        unit: p.unit,
                        tag_indent: li,
                        first_rel: 2,
                        first_line: false,
                        wrapper: 0,
                    };
                    ch.push(text(format!("\n{lind}")));
                    let lvl = if nested_ready && r.chance(3, 4) { 1 } else { 5 };
                    ch.push(unwrap_elem(&q, r, depth - 1, li, lvl, nested_ready));
                }
                _ => ch.push(text(format!("\n{lind}line{i}();"))),
            }
        }
        ch.push(text(format!("\n{}", wrapper(1, r))));
    }
    ch.push(text(format!("\n{ind}")));
    elem(
        if r.chance(1, 2) { Kind::Tl } else { Kind::Mk },
        level,
        false,
        true,
        r.next(),
        ch,
    )
}

// ------------------------------------------------------------------ wrapper-line child templates

/// Bounded-exhaustive templates around the geometry "a child element opens on the tag line or
/// wrapper line of an unwrap-block and closes on a later line", with stray delimiters and
/// multi-byte characters next to the tags. `rank` enumerates pre x sep x body x post x gap x
/// readiness; returns None when rank is out of range.
pub fn wrapper_child_template(rank: u64, sp: &Sp) -> Option<String> {
    let fill: [&str; 7] = ["", "x", "あ", "\t", " ", "DE", "🎈 "];
    let seps: [&str; 4] = ["", " ", "x", "\n"];
    let dims = [fill.len() as u64, seps.len() as u64, 3, fill.len() as u64, 3, 2, 2, 2];
    let total: u64 = dims.iter().product();
    if rank >= total {
        return None;
    }
    let mut r = rank;
    let mut idx = [0usize; 8];
    for k in (0..8).rev() {
        idx[k] = (r % dims[k]) as usize;
        r /= dims[k];
    }
    let f = |s: &str| -> String { if s == "DE" { sp.de.clone() } else { s.to_string() } };
    let (pre, sep, nbody, post, gap) = (f(fill[idx[0]]), seps[idx[1]], idx[2], f(fill[idx[3]]), idx[4]);
    let u_name = if idx[5] == 0 { "feat-a" } else { "zzz" };
    let c_name = if idx[6] == 0 { "feat-a" } else { "zzz" };
    let c_unwrap = if idx[7] == 0 { "" } else { " unwrap-block" };
    let (ds, de, mk) = (&sp.ds, &sp.de, &sp.mk);
    let mut s = format!("\n\t{pre}{ds}{mk} name='{u_name}' unwrap-block{de}{sep}{ds}{mk} name='{c_name}'{c_unwrap}{de}");
    for k in 0..nbody {
        s.push_str(&format!("\n  body{k}();"));
    }
    s.push_str(&format!("\n{ds}/{mk}{de}{post}"));
    for k in 0..gap {
        s.push_str(if k == 0 { "\n" } else { "\n  tail();" });
    }
    s.push_str(&format!("\n{ds}/{mk}{de}"));
    Some(s)
}

// ------------------------------------------------------------------ G-lineseq

/// Line atoms of the bounded-exhaustive line-sequence generator: every document is a sequence
/// of whole lines; closers close the innermost open element (sequences that close with nothing
/// open, or end with something open, are not documents of this generator).
pub const LINE_ATOMS: [&str; 10] = [
    "code0", "code1", "blank", "wsonly", "openR", "openP", "openU", "openR1", "close", "code2",
];

/// Build the document for one atom sequence. `with_unwrap == false` rejects sequences that use
/// the unwrap opener. Ready default elements get level 1, unwrap-blocks level 2 (both ready at
/// STEP = 2, but at different steps of a history), pending ones level 5.
pub fn lineseq_doc(idx: &[usize], final_nl: bool, with_unwrap: bool) -> Option<Vec<Piece>> {
    // stack of (children so far, kind, level, unwrap, indent string)
    struct Open {
        children: Vec<Piece>,
        level: u8,
        unwrap: bool,
        ind: &'static str,
        n: usize,
    }
    let mut stack: Vec<Open> = vec![];
    let mut top: Vec<Piece> = vec![];
    let mut count = 0usize;
    fn push(stack: &mut [Open], top: &mut Vec<Piece>, p: Piece) {
        match stack.last_mut() {
            Some(o) => o.children.push(p),
            None => top.push(p),
        }
    }
    for (k, a) in idx.iter().enumerate() {
        let nl = if k == 0 { "" } else { "\n" };
        match LINE_ATOMS[*a] {
            "code0" => push(&mut stack, &mut top, text(format!("{nl}a{k}();"))),
            "code1" => push(&mut stack, &mut top, text(format!("{nl}  b{k}();"))),
            "code2" => push(&mut stack, &mut top, text(format!("{nl}    c{k}(); "))),
            "blank" => push(&mut stack, &mut top, text(nl.to_string())),
            "wsonly" => push(&mut stack, &mut top, text(format!("{nl}  "))),
            "openR" | "openP" | "openU" | "openR1" => {
                let (level, unwrap, ind) = match LINE_ATOMS[*a] {
                    "openR" => (1u8, false, ""),
                    "openP" => (5, false, ""),
                    "openU" => (2, true, ""),
                    _ => (1, false, "  "),
                };
                if unwrap && !with_unwrap {
                    return None;
                }
                push(&mut stack, &mut top, text(format!("{nl}{ind}")));
                count += 1;
                stack.push(Open { children: vec![], level, unwrap, ind, n: count });
            }
            _ => {
                // close the innermost open element
                let mut o = stack.pop()?;
                o.children.push(text(format!("{nl}{}", o.ind)));
                let kind = if o.n % 2 == 0 { Kind::Tl } else { Kind::Mk };
                let e = elem(kind, o.level, false, o.unwrap, 0x5eed_0000 + o.n as u64 * 7919, o.children);
                push(&mut stack, &mut top, e);
            }
        }
    }
    if !stack.is_empty() || count == 0 {
        return None;
    }
    if final_nl {
        top.push(text("\n"));
    }
    Some(top)
}

// ------------------------------------------------------------------ G-mut

/// Mutate a rendered text: delete / duplicate / swap a token, cut a tag in half, insert stray
/// delimiters, truncate at a char boundary, append a multi-byte tail.
pub fn mutate(text: &str, sp: &Sp, r: &mut Rng) -> String {
    let toks = rscan(text, &sp.ds, &sp.de);
    let mut parts: Vec<String> = toks.iter().map(|(a, b, _)| text[*a..*b].to_string()).collect();
    if parts.is_empty() {
        parts.push(String::new());
    }
    match r.below(9) {
        0 => {
            let i = r.below(parts.len());
            parts.remove(i);
        }
        1 => {
            let i = r.below(parts.len());
            let p = parts[i].clone();
            parts.insert(i, p);
        }
        2 => {
            let i = r.below(parts.len());
            let j = r.below(parts.len());
            parts.swap(i, j);
        }
        3 => {
            // cut a token in half at a char boundary
            let i = r.below(parts.len());
            let cs: Vec<char> = parts[i].chars().collect();
            if !cs.is_empty() {
                let k = r.below(cs.len());
                parts[i] = cs[..k].iter().collect();
            }
        }
        4 => {
            let i = r.below(parts.len() + 1);
            parts.insert(i, sp.ds.clone());
        }
        5 => {
            let i = r.below(parts.len() + 1);
            parts.insert(i, sp.de.clone());
        }
        6 => {
            let s: String = parts.concat();
            let cs: Vec<char> = s.chars().collect();
            let k = r.below(cs.len() + 1);
            return cs[..k].iter().collect();
        }
        7 => {
            parts.push(r.pick(&["あ", "🎈", "é", "\n", " ", "\r"]).to_string());
        }
        _ => {
            let i = r.below(parts.len() + 1);
            parts.insert(i, format!("{} {}", sp.ds, sp.de));
        }
    }
    parts.concat()
}

// ------------------------------------------------------------------ equal-shape documents

/// Documents of identical length whose removed block has identical length and sits at the same
/// byte offset, but whose neighbourhood (blank / code lines directly before and after the block)
/// differs. Processed back to back they give every allocation of a run the same size - state
/// kept between calls and keyed by position, length or buffer address (a memo, a reused
/// scratch buffer) shows up as a wrong result in the second document of a pair.
pub fn equal_shape_docs() -> Vec<Vec<Piece>> {
    // six bytes each; the blanks after the last line break are the indentation of the tags
    let pre = ["abcde\n", "abcd\n ", "abc\n  ", "ab\n\n  ", "a\n\n\n ", "abc\n\n\n", "ab\n  \n", "\n\n\n\n  "];
    let suf = ["uvwxy\n", "\nuvwx\n", "\n\nuvw\n", "  \nuv\n", "\n\n\n\nu", "uvwxyz"];
    let mut v = vec![];
    for p in pre {
        let k = p.len() - p.trim_end_matches(' ').len();
        for q in suf {
            v.push(vec![
                text(p),
                elem(Kind::Mk, 1, false, false, 7, vec![text(format!("\n{}\n{}", "x".repeat(6 - k), " ".repeat(k)))]),
                text("\n"),
                text(q),
            ]);
        }
    }
    v
}
