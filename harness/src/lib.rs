//! `cv`: runtime monitors for piyoppi/chiritori. See /verif/DESIGN.md.
pub mod api;
pub mod ctx;
pub mod doc;
pub mod gen;
pub mod judge;
pub mod mon;
pub mod oracle;
pub mod refmodel;
pub mod util;
