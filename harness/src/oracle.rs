//! Reference extents, line tables, dedent, list regions and list rendering, computed from the
//! ground-truth spans of a rendered document (never from chiritori).

use crate::doc::*;
use crate::util::is_ws;

pub fn line_start(t: &str, pos: usize) -> usize {
    t[..pos].rfind('\n').map(|p| p + 1).unwrap_or(0)
}
pub fn line_end(t: &str, pos: usize) -> usize {
    t[pos..].find('\n').map(|p| p + pos).unwrap_or(t.len())
}
pub fn blank(s: &str) -> bool {
    s.chars().all(|c| c == ' ' || c == '\t')
}
pub fn tag_alone(t: &str, span: (usize, usize)) -> bool {
    blank(&t[line_start(t, span.0)..span.0]) && blank(&t[span.1..line_end(t, span.1)])
}
/// Like `tag_alone`, but a CRLF line end counts as a line end (a single '\r' directly before
/// the line break is allowed after the tag).
pub fn tag_alone_crlf(t: &str, span: (usize, usize)) -> bool {
    let after = &t[span.1..line_end(t, span.1)];
    let after = after.strip_suffix('\r').unwrap_or(after);
    blank(&t[line_start(t, span.0)..span.0]) && blank(after)
}

#[derive(Debug, Clone, PartialEq)]
pub enum UnwrapGeom {
    /// both tags alone on their line, tags on different lines; payload = lines between the tags
    Canonical(usize),
    /// the whole element on a single line (property: left untouched)
    SingleLine,
    /// tags share a line with other text: extent unspecified
    NonCanonical,
}

pub fn unwrap_geom(t: &str, e: &ElemInfo) -> UnwrapGeom {
    let between = &t[e.open.1..e.close.0];
    let lbs = between.matches('\n').count();
    if lbs == 0 {
        // whole element on one line (tags themselves may span lines only if multiline tags are on)
        if !t[e.open.0..e.close.1].contains('\n') {
            return UnwrapGeom::SingleLine;
        }
        return UnwrapGeom::NonCanonical;
    }
    if !tag_alone_crlf(t, e.open) || !tag_alone_crlf(t, e.close) {
        return UnwrapGeom::NonCanonical;
    }
    UnwrapGeom::Canonical(lbs - 1)
}

#[derive(Debug, Clone)]
pub struct Unwrap {
    pub head: (usize, usize),
    pub tail: (usize, usize),
}

/// Some(parts) iff canonical geometry with >= 2 lines between the tags.
pub fn unwrap_parts(t: &str, e: &ElemInfo) -> Option<Unwrap> {
    match unwrap_geom(t, e) {
        UnwrapGeom::Canonical(k) if k >= 2 => {
            let lb1 = line_end(t, e.open.1);
            let lb2 = line_end(t, lb1 + 1);
            let p1 = line_start(t, e.close.0) - 1; // LB before the closing tag line
            let p2 = line_start(t, p1) - 1; // LB before the closing wrapper line
            Some(Unwrap {
                head: (e.open.0, lb2),
                tail: (p2 + 1, e.close.1),
            })
        }
        _ => None,
    }
}

/// Does any tag (of another element) sit on one of the two wrapper lines of unwrap element `e`?
/// (Such documents are outside the spaces of C11, C12, C15-C17 and C19.)
pub fn tag_on_wrapper_line(r: &Rendered, e: &ElemInfo) -> bool {
    let t = &r.text;
    if unwrap_parts(t, e).is_none() {
        return false;
    }
    let ls = split_lines(t);
    let w1 = line_of(&ls, e.open.1.saturating_sub(1)) + 1;
    let w2 = line_of(&ls, e.close.0) - 1;
    r.elems.iter().any(|x| {
        if x.id == e.id {
            return false;
        }
        let a = line_of(&ls, x.open.0);
        let b = line_of(&ls, x.open.1.saturating_sub(1));
        let c = line_of(&ls, x.close.0);
        let d = line_of(&ls, x.close.1.saturating_sub(1));
        [w1, w2].iter().any(|w| (a..=b).contains(w) || (c..=d).contains(w))
    })
}

/// Regions of one element: Some(vec) (possibly empty for an un-unwrappable block), or None when
/// the geometry is outside the property's space (extent unspecified).
pub fn regions_of(t: &str, e: &ElemInfo) -> Option<Vec<(usize, usize)>> {
    if e.unwrap {
        match unwrap_geom(t, e) {
            UnwrapGeom::NonCanonical => None,
            _ => Some(
                unwrap_parts(t, e)
                    .map(|u| vec![u.head, u.tail])
                    .unwrap_or_default(),
            ),
        }
    } else {
        Some(vec![(e.open.0, e.close.1)])
    }
}

/// Union of the removable extents of all ready elements at `step`.
/// None => some ready unwrap element has non-canonical geometry (extent unspecified)
pub fn extents(r: &Rendered, step: u8) -> Option<Vec<(usize, usize)>> {
    let mut v = vec![];
    for e in &r.elems {
        if !e.ready(step) {
            continue;
        }
        v.extend(regions_of(&r.text, e)?);
    }
    Some(union(v))
}

pub fn union(mut v: Vec<(usize, usize)>) -> Vec<(usize, usize)> {
    v.sort();
    let mut m: Vec<(usize, usize)> = vec![];
    for (s, e) in v {
        if let Some(l) = m.last_mut() {
            if s <= l.1 {
                l.1 = l.1.max(e);
                continue;
            }
        }
        m.push((s, e));
    }
    m
}

pub fn minus(t: &str, ext: &[(usize, usize)]) -> String {
    let mut s = String::new();
    let mut cur = 0;
    for (a, b) in ext {
        s.push_str(&t[cur..*a]);
        cur = *b;
    }
    s.push_str(&t[cur..]);
    s
}

/// Bodies of unwrapped (ready, unwrappable) blocks: (body start, body end)
pub fn unwrapped_bodies(r: &Rendered, step: u8) -> Vec<(usize, usize)> {
    r.elems
        .iter()
        .filter(|e| e.ready(step) && e.unwrap)
        .filter_map(|e| unwrap_parts(&r.text, e).map(|u| (u.head.1, u.tail.0)))
        .collect()
}

/// C14: stretches. Ok(number of stretches checked) or Err(description).
pub fn c14_check(r: &Rendered, step: u8, ext: &[(usize, usize)], out: &str) -> Result<usize, String> {
    let t = &r.text;
    let bodies = unwrapped_bodies(r, step);
    let in_body = |p: usize| bodies.iter().any(|(a, b)| *a <= p && p < *b);
    // maximal segments without removed characters
    let mut segs: Vec<(usize, usize)> = vec![];
    let mut cur = 0;
    for (a, b) in ext {
        if cur < *a {
            segs.push((cur, *a));
        }
        cur = *b;
    }
    if cur < t.len() {
        segs.push((cur, t.len()));
    }
    // A segment may straddle the border of an unwrapped body (body of an inner block ends where
    // the tail of that block starts, which is removed, so segments never straddle a ready
    // block's own borders; but a segment inside an OUTER unwrapped body is split per line).
    let mut stretches: Vec<(usize, usize)> = vec![];
    for (a, b) in segs {
        if in_body(a) || (b > a && in_body(b - 1)) {
            let mut s = a;
            for (i, c) in t[a..b].char_indices() {
                if c == '\n' {
                    stretches.push((s, a + i));
                    s = a + i + 1;
                }
            }
            stretches.push((s, b));
        } else {
            stretches.push((a, b));
        }
    }
    let out_pos: Vec<usize> = out
        .char_indices()
        .filter(|(_, c)| !is_ws(*c))
        .map(|(i, _)| i)
        .collect();
    let mut k = 0usize;
    let mut checked = 0;
    for (a, b) in stretches {
        let s = &t[a..b];
        let trimmed = s.trim_matches(is_ws);
        let n = trimmed.chars().filter(|c| !is_ws(*c)).count();
        if n == 0 {
            continue;
        }
        if k + n > out_pos.len() {
            return Err("alignment overflow".into());
        }
        let first = out_pos[k];
        let last = out_pos[k + n - 1];
        let last_end = last + out[last..].chars().next().unwrap().len_utf8();
        if &out[first..last_end] != trimmed {
            return Err(format!(
                "stretch {:?} appears as {:?}",
                trimmed,
                &out[first..last_end]
            ));
        }
        k += n;
        checked += 1;
    }
    if k != out_pos.len() {
        return Err("alignment leftover".into());
    }
    Ok(checked)
}

/// C14 fallback when non-whitespace characters were lost or added (no alignment): every trimmed
/// stretch must occur verbatim in the output, in the original order.
pub fn c14_ordered_search(r: &Rendered, step: u8, ext: &[(usize, usize)], out: &str) -> Result<usize, String> {
    let t = &r.text;
    let bodies = unwrapped_bodies(r, step);
    let in_body = |p: usize| bodies.iter().any(|(a, b)| *a <= p && p < *b);
    let mut segs: Vec<(usize, usize)> = vec![];
    let mut cur = 0;
    for (a, b) in ext {
        if cur < *a {
            segs.push((cur, *a));
        }
        cur = *b;
    }
    if cur < t.len() {
        segs.push((cur, t.len()));
    }
    let mut pos = 0usize;
    let mut n = 0;
    for (a, b) in segs {
        let pieces: Vec<&str> = if in_body(a) || (b > a && in_body(b - 1)) { t[a..b].split('\n').collect() } else { vec![&t[a..b]] };
        for p in pieces {
            let trimmed = p.trim_matches(is_ws);
            if trimmed.is_empty() {
                continue;
            }
            match out[pos..].find(trimmed) {
                Some(i) => pos += i + trimmed.len(),
                None => return Err(format!("stretch {:?} does not occur verbatim (in order) in the output", crate::util::trunc(trimmed, 120))),
            }
            n += 1;
        }
    }
    Ok(n)
}

// ------------------------------------------------------------------ lines

#[derive(Debug, Clone)]
pub struct Line {
    pub start: usize,
    pub end: usize,
    pub text: String,
    /// some non-whitespace character of the line lies in a removed extent
    pub removed: bool,
}

pub fn split_lines(t: &str) -> Vec<(usize, usize)> {
    let mut v = vec![];
    let mut s = 0;
    for (i, c) in t.char_indices() {
        if c == '\n' {
            v.push((s, i));
            s = i + 1;
        }
    }
    v.push((s, t.len()));
    v
}
pub fn line_of(lines: &[(usize, usize)], pos: usize) -> usize {
    lines
        .iter()
        .position(|(s, e)| *s <= pos && pos <= *e)
        .unwrap()
}
pub fn indent_len(s: &str) -> usize {
    s.chars().take_while(|c| *c == ' ' || *c == '\t').count()
}
pub fn indent_of(s: &str) -> &str {
    &s[..indent_len(s)]
}

pub fn line_table(r: &Rendered, ext: &[(usize, usize)]) -> Vec<Line> {
    split_lines(&r.text)
        .into_iter()
        .map(|(s, e)| {
            let text = r.text[s..e].to_string();
            let removed = r.text[s..e]
                .char_indices()
                .any(|(i, c)| !is_ws(c) && ext.iter().any(|(a, b)| *a <= s + i && s + i < *b));
            Line {
                start: s,
                end: e,
                text,
                removed,
            }
        })
        .collect()
}

#[derive(Debug, Clone)]
pub struct UnwrapLines {
    pub id: usize,
    pub open_line: usize,
    pub close_line: usize,
}

pub fn ready_unwrapped(r: &Rendered, step: u8) -> Vec<UnwrapLines> {
    let ls = split_lines(&r.text);
    r.elems
        .iter()
        .filter(|e| e.ready(step) && e.unwrap && unwrap_parts(&r.text, e).is_some())
        .map(|e| UnwrapLines {
            id: e.id,
            open_line: line_of(&ls, e.open.0),
            close_line: line_of(&ls, e.close.0),
        })
        .collect()
}

/// R-dedent. Expected indentation (leading ws length in chars) for every input line after all
/// unwraps; None if irregular (the sequential outer->inner composition and the
/// union-of-original-columns reading disagree, so the property does not determine the result).
pub fn expected_indents(r: &Rendered, step: u8) -> Option<Vec<usize>> {
    let ls = split_lines(&r.text);
    let orig: Vec<usize> = ls.iter().map(|(s, e)| indent_len(&r.text[*s..*e])).collect();
    let mut us = ready_unwrapped(r, step);
    us.sort_by_key(|u| u.open_line);
    let mut seq = orig.clone();
    for u in &us {
        let c = seq[u.open_line];
        let first_inner = u.open_line + 2;
        if first_inner + 2 > u.close_line {
            continue;
        }
        let s = seq[first_inner].saturating_sub(c);
        for item in seq.iter_mut().take(u.close_line - 1).skip(first_inner) {
            let i = *item;
            if i > c {
                *item = c.max(i.saturating_sub(s));
            }
        }
    }
    let mut uni = orig.clone();
    for l in 0..orig.len() {
        let mut cut = vec![false; orig[l]];
        for u in &us {
            let first_inner = u.open_line + 2;
            if first_inner + 2 > u.close_line || l < first_inner || l > u.close_line - 2 {
                continue;
            }
            let c = orig[u.open_line];
            let s = orig[first_inner].saturating_sub(c);
            for item in cut.iter_mut().take((c + s).min(orig[l])).skip(c) {
                *item = true;
            }
        }
        uni[l] = orig[l] - cut.iter().filter(|b| **b).count();
    }
    if seq == uni {
        Some(seq)
    } else {
        None
    }
}

// ------------------------------------------------------------------ list regions

#[derive(Debug, Clone, PartialEq)]
pub struct Region {
    pub start: usize,
    pub end: usize,
    pub ready: bool,
}

/// R-regions: expected list_all regions (ready + pending) in source order; None if some
/// ready/pending unwrap element has unspecified geometry.
pub fn expected_regions(r: &Rendered, step: u8) -> Option<Vec<Region>> {
    let mut ready: Vec<(usize, usize)> = vec![];
    let mut pend: Vec<(usize, usize)> = vec![];
    for e in &r.elems {
        if e.ready(step) {
            ready.extend(regions_of(&r.text, e)?);
        } else if e.pending(step) {
            pend.extend(regions_of(&r.text, e)?);
        }
    }
    let inside = |x: &(usize, usize), ys: &Vec<(usize, usize)>| {
        ys.iter().any(|y| y != x && y.0 <= x.0 && x.1 <= y.1)
    };
    let ready_top: Vec<_> = ready.iter().filter(|x| !inside(x, &ready)).cloned().collect();
    let pend_top: Vec<_> = pend
        .iter()
        .filter(|x| !inside(x, &pend) && !inside(x, &ready_top))
        .cloned()
        .collect();
    let mut v: Vec<Region> = ready_top
        .iter()
        .map(|x| Region {
            start: x.0,
            end: x.1,
            ready: true,
        })
        .chain(pend_top.iter().map(|x| Region {
            start: x.0,
            end: x.1,
            ready: false,
        }))
        .collect();
    v.sort_by_key(|x| (x.start, x.end));
    Some(v)
}

pub fn line_no(t: &str, pos: usize) -> usize {
    // byte-wise: `pos` may point into the middle of a multi-byte character (end - 1)
    t.as_bytes()[..pos.min(t.len())].iter().filter(|b| **b == b'\n').count() + 1
}

fn width(s: &str) -> usize {
    s.chars().map(|c| if c == '\t' { 4 } else { 1 }).sum()
}

/// R-render: one list item (no colours).
/// Returns (rendered, start_marker_comparable, end_marker_comparable): marker lines are only
/// comparable when the text left of the marker is ASCII.
pub fn render_item(t: &str, start: usize, end: usize) -> (String, bool, bool) {
    let ls = split_lines(t);
    let l0 = line_of(&ls, start);
    // last removed char
    let last = t[..end].char_indices().last().unwrap().0;
    let l1 = {
        // line containing the last removed character; if that character is a line break it
        // belongs to the line it terminates
        ls.iter()
            .position(|(s, e)| *s <= last && last <= *e)
            .unwrap()
    };
    let mut s = String::new();
    let left0 = &t[ls[l0].0..start];
    s.push_str(&" ".repeat(9 + width(left0)));
    s.push_str("_start\n");
    for l in l0..=l1 {
        s.push_str(&format!(
            "{:7} |{}\n",
            l + 1,
            t[ls[l].0..ls[l].1].replace('\t', "    ")
        ));
    }
    let left1 = &t[ls[l1].0..last];
    s.push_str(&" ".repeat(9 + width(left1)));
    s.push_str("‾end");
    (s, left0.is_ascii(), left1.is_ascii())
}
